------------------------------- MODULE Entry -------------------------------
(***************************************************************************)
(* The Entry block of model.py as an insertion-ordered mapping (C19).      *)
(*                                                                         *)
(* Operational side (shaped like the code): the field LIST is the single   *)
(* source of truth; the dict view is rebuilt from it on every access.      *)
(* Declarative side: an insertion-ordered dictionary OD = (keys, map),     *)
(* defined without reference to the list.  `Refines` states that every     *)
(* operation has the dictionary's result and the dictionary's post-state.  *)
(*                                                                         *)
(* Also: structural equality of blocks and fields (Eq).                    *)
(***************************************************************************)
EXTENDS Naturals, Sequences, FiniteSets, TLC

Reserved == {"ENTRYTYPE", "ID"}

\* ---- results -------------------------------------------------------------
RNone        == [t |-> "none"]
RDefault     == [t |-> "default"]
RKeyError    == [t |-> "KeyError"]
RBool(b)     == [t |-> "bool", b |-> b]
RVal(v)      == [t |-> "val", v |-> v]
RField(k, v) == [t |-> "field", k |-> k, v |-> v]

\* ---- operational: the field list ------------------------------------------
KeysOf(fs)  == {fs[i].k : i \in DOMAIN fs}
Distinct(fs) == \A i, j \in DOMAIN fs : fs[i].k = fs[j].k => i = j
\* dict comprehension {f.key: f for f in fields}: the LAST field with a key wins
DictIdx(fs, k) == CHOOSE i \in DOMAIN fs : fs[i].k = k /\ \A j \in DOMAIN fs : fs[j].k = k => j <= i
FirstIdx(fs, k) == CHOOSE i \in DOMAIN fs : fs[i].k = k /\ \A j \in DOMAIN fs : fs[j].k = k => i <= j
Without(fs, k) == SelectSeq(fs, LAMBDA f : f.k # k)

SetField(fs, k, v) ==
    IF k \in KeysOf(fs) THEN [fs EXCEPT ![FirstIdx(fs, k)] = [k |-> k, v |-> v]]
    ELSE Append(fs, [k |-> k, v |-> v])

\* op = [op, k, v]    (v unused by most);  ety/eid are the entry's type and key
Step(fs, op, ety, eid) ==
    CASE op.op = "set_field" -> [fs |-> SetField(fs, op.k, op.v), res |-> RNone]
      [] op.op = "setitem"   -> [fs |-> SetField(fs, op.k, op.v), res |-> RNone]
      [] op.op = "pop"       -> IF op.k \in KeysOf(fs)
                                THEN [fs |-> Without(fs, op.k), res |-> RField(op.k, fs[DictIdx(fs, op.k)].v)]
                                ELSE [fs |-> fs, res |-> RDefault]
      [] op.op = "delitem"   -> [fs |-> Without(fs, op.k), res |-> RNone]
      [] op.op = "get"       -> IF op.k \in KeysOf(fs)
                                THEN [fs |-> fs, res |-> RField(op.k, fs[DictIdx(fs, op.k)].v)]
                                ELSE [fs |-> fs, res |-> RDefault]
      [] op.op = "contains"  -> [fs |-> fs, res |-> RBool(op.k \in KeysOf(fs))]
      \* not one of the mapping operations of the statement, but a public way to change an entry: the key of a held
      \* Field object is assigned (op.v is the new key; enabled only for a held key and a new key that is free and not
      \* reserved).  The field keeps its position and value - and the three views keep agreeing.
      [] op.op = "rename"    -> [fs |-> [i \in DOMAIN fs |-> IF fs[i].k = op.k THEN [k |-> op.v, v |-> fs[i].v] ELSE fs[i]], res |-> RNone]
      [] op.op = "getitem"   -> IF op.k = "ENTRYTYPE" THEN [fs |-> fs, res |-> RVal(ety)]
                                ELSE IF op.k = "ID" THEN [fs |-> fs, res |-> RVal(eid)]
                                ELSE IF op.k \in KeysOf(fs)
                                THEN [fs |-> fs, res |-> RVal(fs[DictIdx(fs, op.k)].v)]
                                ELSE [fs |-> fs, res |-> RKeyError]

\* the three views the property names
ViewFields(fs) == fs
RECURSIVE Dedup(_, _)
Dedup(fs, seen) == IF fs = <<>> THEN <<>>
                   ELSE IF Head(fs).k \in seen THEN Dedup(Tail(fs), seen)
                   ELSE <<Head(fs).k>> \o Dedup(Tail(fs), seen \cup {Head(fs).k})
\* a Python dict built from the list: keys in first-occurrence order, value of the last occurrence
ViewDict(fs)   == LET ks == Dedup(fs, {}) IN [i \in DOMAIN ks |-> [k |-> ks[i], v |-> fs[DictIdx(fs, ks[i])].v]]
ViewItems(fs, ety, eid) == <<[k |-> "ENTRYTYPE", v |-> ety], [k |-> "ID", v |-> eid]>> \o fs

\* ---- declarative: an insertion-ordered dictionary ---------------------------
\* OD = [keys |-> sequence of distinct keys, map |-> function on those keys]
Abs(fs) == [keys |-> [i \in DOMAIN fs |-> fs[i].k],
            map  |-> [k \in KeysOf(fs) |-> fs[DictIdx(fs, k)].v]]
ODHas(od, k) == k \in DOMAIN od.map
ODSet(od, k, v) ==
    IF ODHas(od, k) THEN [od EXCEPT !.map[k] = v]
    ELSE [keys |-> Append(od.keys, k), map |-> [x \in DOMAIN od.map \cup {k} |-> IF x = k THEN v ELSE od.map[x]]]
ODDel(od, k) == [keys |-> SelectSeq(od.keys, LAMBDA x : x # k),
                 map  |-> [x \in DOMAIN od.map \ {k} |-> od.map[x]]]

ODStep(od, op, ety, eid) ==
    CASE op.op \in {"set_field", "setitem"} -> [od |-> ODSet(od, op.k, op.v), res |-> RNone]
      [] op.op = "pop"      -> IF ODHas(od, op.k) THEN [od |-> ODDel(od, op.k), res |-> RField(op.k, od.map[op.k])]
                                                  ELSE [od |-> od, res |-> RDefault]
      [] op.op = "delitem"  -> [od |-> ODDel(od, op.k), res |-> RNone]   \* missing key: state only (DESIGN R4)
      [] op.op = "get"      -> IF ODHas(od, op.k) THEN [od |-> od, res |-> RField(op.k, od.map[op.k])]
                                                  ELSE [od |-> od, res |-> RDefault]
      [] op.op = "contains" -> [od |-> od, res |-> RBool(ODHas(od, op.k))]
      [] op.op = "rename"   -> [od |-> [keys |-> [i \in DOMAIN od.keys |-> IF od.keys[i] = op.k THEN op.v ELSE od.keys[i]],
                                        map |-> [x \in (DOMAIN od.map \ {op.k}) \cup {op.v} |-> IF x = op.v THEN od.map[op.k] ELSE od.map[x]]],
                                res |-> RNone]
      [] op.op = "getitem"  -> IF op.k = "ENTRYTYPE" THEN [od |-> od, res |-> RVal(ety)]
                               ELSE IF op.k = "ID" THEN [od |-> od, res |-> RVal(eid)]
                               ELSE IF ODHas(od, op.k) THEN [od |-> od, res |-> RVal(od.map[op.k])]
                               ELSE [od |-> od, res |-> RKeyError]

RenameEnabled(fs, op) == op.k \in KeysOf(fs) /\ op.v \notin KeysOf(fs) /\ op.v \notin Reserved
Refines(fs, op, ety, eid) ==
    LET s == Step(fs, op, ety, eid)
        d == ODStep(Abs(fs), op, ety, eid)
    IN  /\ s.res = d.res
        /\ Abs(s.fs) = d.od
        /\ Distinct(s.fs)

ViewsAgree(fs, ety, eid) ==
    /\ ViewDict(fs) = fs                       \* with distinct keys the dict lists the same fields in the same order
    /\ SubSeq(ViewItems(fs, ety, eid), 3, Len(fs) + 2) = fs
    /\ ViewItems(fs, ety, eid)[1].v = ety /\ ViewItems(fs, ety, eid)[2].v = eid

\* ---- structural equality (second half of C19) ------------------------------
\* an object is [cls |-> class name, at |-> function attribute -> value]
Eq(x, y) == x.cls = y.cls /\ x.at = y.at
=============================================================================
