-------------------------------- MODULE Writer --------------------------------
(***************************************************************************)
(* writer.write(library, BibtexFormat) as a function producing the output   *)
(* STRING (C06; used by C05).                                               *)
(*                                                                          *)
(* Blocks (what the writer reads through the public attributes):            *)
(*   [t |-> "entry", type, key, fields |-> seq of [k, v], live]             *)
(*   [t |-> "string", key, val]    [t |-> "preamble", val]                  *)
(*   [t |-> "ecomment", text]      [t |-> "icomment", text]                 *)
(*   [t |-> "failed", raw, nl]     nl = number of lines of raw              *)
(* `live` tells whether the entry is a member of library.entries (auto      *)
(* alignment looks at those only).                                          *)
(* Format: [indent, vc (value_column, or -1 for "auto"), sep, tc, pfc]      *)
(* with pfc = [pre, post, n] the warning comment split around "{n}"         *)
(* (n = FALSE: no placeholder, text = pre).                                 *)
(***************************************************************************)
EXTENDS Naturals, Integers, Sequences, FiniteSets, TLC

RECURSIVE Spaces(_)
Spaces(n) == IF n <= 0 THEN "" ELSE " " \o Spaces(n - 1)
MaxOf(S) == IF S = {} THEN 0 ELSE CHOOSE x \in S : \A y \in S : y <= x
VALSEP == " = "

\* the column the format asks for: value_column, or for "auto" the longest key of any live entry + len(" = ")
KeyLens(lib) == UNION {{Len(lib[x].fields[f].k) : f \in DOMAIN lib[x].fields} : x \in {y \in DOMAIN lib : lib[y].t = "entry" /\ lib[y].live}}
Column(lib, fmt) == IF fmt.vc = -1 THEN MaxOf(KeyLens(lib)) + Len(VALSEP) ELSE fmt.vc
PadLen(key, vc) == IF vc - Len(key) - Len(VALSEP) > 0 THEN vc - Len(key) - Len(VALSEP) ELSE 0

FieldLine(f, last, fmt, vc) ==
    fmt.indent \o f.k \o Spaces(PadLen(f.k, vc)) \o VALSEP \o f.v \o (IF fmt.tc \/ ~last THEN "," ELSE "") \o "\n"
RECURSIVE FieldLines(_, _, _, _)
FieldLines(fs, i, fmt, vc) == IF i > Len(fs) THEN "" ELSE FieldLine(fs[i], i = Len(fs), fmt, vc) \o FieldLines(fs, i + 1, fmt, vc)

Warning(fmt, nl) == IF fmt.pfc.n THEN fmt.pfc.pre \o ToString(nl) \o fmt.pfc.post ELSE fmt.pfc.pre
BlockText(b, fmt, vc) ==
    CASE b.t = "entry"    -> "@" \o b.type \o "{" \o b.key \o ",\n" \o FieldLines(b.fields, 1, fmt, vc) \o "}\n"
      [] b.t = "string"   -> "@string{" \o b.key \o VALSEP \o b.val \o "}\n"
      [] b.t = "preamble" -> "@preamble{" \o b.val \o "}\n"
      [] b.t = "ecomment" -> "@comment{" \o b.text \o "}\n"
      [] b.t = "icomment" -> b.text \o "\n"
      [] b.t = "failed"   -> Warning(fmt, b.nl) \o "\n" \o b.raw \o "\n"
RECURSIVE Join(_, _, _, _)
Join(lib, i, fmt, vc) == IF i > Len(lib) THEN ""
                         ELSE BlockText(lib[i], fmt, vc) \o (IF i < Len(lib) THEN fmt.sep ELSE "") \o Join(lib, i + 1, fmt, vc)
Write(lib, fmt) == Join(lib, 1, fmt, Column(lib, fmt))

\* the parts of the text that the statement of C06 fixes exactly: the field lines of an entry, and a failed block under
\* its warning comment (used to judge an output that is not identical to Write's: see harness c06 "relation")
Fixed(lib, fmt) == LET vc == Column(lib, fmt) IN
    [x \in DOMAIN lib |-> CASE lib[x].t = "entry" -> FieldLines(lib[x].fields, 1, fmt, vc)
                            [] lib[x].t = "failed" -> Warning(fmt, lib[x].nl) \o "\n" \o lib[x].raw \o "\n"
                            [] OTHER -> ""]

\* ---- declarative clauses of the statement (on the pieces the text is built from) -------------
\* column (0-based) at which the value of a field starts on its line
ValueColumn(f, fmt, vc) == Len(fmt.indent) + Len(f.k) + PadLen(f.k, vc) + Len(VALSEP)
ColumnLaw(lib, fmt) ==
    LET vc == Column(lib, fmt) IN
    \A x \in DOMAIN lib : lib[x].t = "entry" => \A f \in DOMAIN lib[x].fields :
        LET fl == lib[x].fields[f] IN
        /\ Len(fl.k) + Len(VALSEP) <= vc => ValueColumn(fl, fmt, vc) = Len(fmt.indent) + vc       \* key short enough
        /\ ValueColumn(fl, fmt, vc) >= Len(fmt.indent) + Len(fl.k) + Len(VALSEP)                     \* never overlaps the key
AutoAligned(lib, fmt) ==
    fmt.vc = -1 =>
        LET vc == Column(lib, fmt)
            live == {y \in DOMAIN lib : lib[y].t = "entry" /\ lib[y].live}
            cols == UNION {{ValueColumn(lib[x].fields[f], fmt, vc) : f \in DOMAIN lib[x].fields} : x \in live}
        IN /\ Cardinality(cols) <= 1                                                  \* all values in one column
           /\ cols # {} => \E x \in live : \E f \in DOMAIN lib[x].fields :            \* and no smaller column would do
                              PadLen(lib[x].fields[f].k, vc) = 0
=============================================================================
