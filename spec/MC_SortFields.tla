---------------------------- MODULE MC_SortFields ----------------------------
EXTENDS SortFields, Json
CONSTANTS MaxFields
VARIABLES fs, op, res
Keys == {"a", "A", "b", "B", "c"}
Lower == [a |-> "a", A |-> "a", b |-> "b", B |-> "b", c |-> "c"]
Rank == [A |-> 1, B |-> 2, a |-> 3, b |-> 4, c |-> 5]          \* Python: upper case sorts first
Fld(k, v) == [k |-> k, v |-> v, lk |-> Lower[k], r |-> Rank[k], lr |-> Rank[Lower[k]]]
RECURSIVE KeySeqs(_)
KeySeqs(n) == IF n = 0 THEN {<<>>} ELSE LET p == KeySeqs(n - 1) IN p \cup {Append(s, k) : s \in {x \in p : Len(x) = n - 1}, k \in Keys}
Inputs == {[i \in DOMAIN s |-> Fld(s[i], i)] : s \in KeySeqs(MaxFields)}
OKeys == {"a", "A", "b", "c"}
RECURSIVE SubPerms(_)
SubPerms(n) == IF n = 0 THEN {<<>>}
               ELSE LET p == SubPerms(n - 1) IN p \cup {Append(s, k) : s \in {x \in p : Len(x) = n - 1}, k \in OKeys}
Orders == {[i \in DOMAIN s |-> [k |-> s[i], lk |-> Lower[s[i]]]] : s \in {x \in SubPerms(4) : \A i, j \in DOMAIN x : x[i] = x[j] => i = j}}
Ops == {[m |-> "alpha"], [m |-> "normalize"]} \cup [m : {"custom"}, order : Orders, cs : BOOLEAN]
Valid(o) == o.m # "custom" \/ CtorOK(o.order, o.cs)
DOp(o) == IF o.m = "custom" THEN [m |-> "custom", order |-> [i \in DOMAIN o.order |-> o.order[i].k], cs |-> o.cs] ELSE o

Init == fs \in Inputs /\ op = [m |-> "none"] /\ res = <<>>
Next == /\ op.m = "none"
        /\ \E o \in Ops :
             /\ op' = o /\ fs' = fs
             /\ IF Valid(o) THEN res' = Apply(o, fs) ELSE res' = <<>>
             /\ PrintT(ToJson([fs |-> KV(fs), op |-> DOp(o), ctor |-> Valid(o),
                               out |-> IF Valid(o) THEN KV(Apply(o, fs)) ELSE <<>>]))
Done == op.m # "none" /\ Valid(op)
InvHolds      == Done => Holds(op, fs, res)
InvIdempotent == Done => Apply(op, res) = res
InvValuesKept == Done /\ op.m # "normalize" => {res[i].v : i \in DOMAIN res} = DOMAIN fs
=============================================================================
