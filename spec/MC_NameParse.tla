------------------------------ MODULE MC_NameParse ------------------------------
(* Part "chars": every name of <= MaxLen character tokens over the full alphabet.  *)
(* Part "words": every name of <= MaxLen words (case U/L/Z) each followed by a      *)
(* separator (blank, tie, comma).                                                   *)
EXTENDS NameMerge, Json
CONSTANTS MaxLen, Part
VARIABLES s, n
Alphabet == {"U", "L", "Z", "W", "T", "C", "{", "}", "EU", "EL", "EA"}
WordToks == {<<c, sp>> : c \in {"U", "L", "Z"}, sp \in {"W", "T", "C"}}
Init == s = <<>> /\ n = 0
Next == /\ n < MaxLen
        /\ n' = n + 1
        /\ IF Part = "chars" THEN \E a \in Alphabet : s' = Append(s, a)
           ELSE \E w \in WordToks : s' = s \o w
        /\ PrintT(ToJson([s |-> s', r |-> Parse(s'),
                          m |-> IF InDomain(s') THEN MergeLastFirst(Texts(s', Parse(s').parts)) ELSE <<>>]))
Res == Parse(s)
InvErrors == (Res.err # "") <=> RefError(s)
InvParts  == Res.err = "" => PartsOK(s, Res)
\* C14 on one person: splitting the parts of the merged name gives the same parts
InvInverse == InverseOK(s)
=============================================================================
