------------------------------ MODULE Entrypoints ------------------------------
(***************************************************************************)
(* parse_string / write_string as stack builders + left folds (C20), and    *)
(* the per-block splice protocol of BlockMiddleware.transform.              *)
(*                                                                          *)
(* Middlewares are abstract: probes "P1" "P2" "P3" (block middlewares) and  *)
(* "L1" (a library middleware) append <<id, layers seen>> to the log of     *)
(* every entry; "RS" resolves references (no visible effect here), "RE"     *)
(* removes one enclosing layer, "AE" adds one, "MI" turns the month into an *)
(* int.  The state of the one entry of the test document is                 *)
(* [layers, log, mint]; the order of application is observable in the log.  *)
(* An argument is "None" or a sequence of middleware ids.                   *)
(***************************************************************************)
EXTENDS Writer
None == <<"None">>      \* (a tuple, so that it can be compared with stacks)
DefaultParse == <<"RS", "RE">>
DefaultUnparse == <<"AE">>

BuildParseStack(ps, app) ==
    IF ps # None /\ app # None THEN [err |-> TRUE, stack |-> <<>>]
    ELSE [err |-> FALSE, stack |-> (IF ps = None THEN DefaultParse ELSE ps) \o (IF app = None THEN <<>> ELSE app)]
BuildUnparseStack(us, pre) ==
    IF us # None /\ pre # None THEN [err |-> TRUE, stack |-> <<>>]
    ELSE [err |-> FALSE, stack |-> (IF pre = None THEN <<>> ELSE pre) \o (IF us = None THEN DefaultUnparse ELSE us)]

\* "DR" is a block middleware answering None for every entry: the entry leaves the library, and everything after it
\* in the stack (and the writer) sees the library WITHOUT it - an empty library is a result like any other.
ApplyMw(m, e) ==
    IF ~e.live THEN e ELSE
    CASE m = "DR" -> [e EXCEPT !.live = FALSE]
      [] m \in {"P1", "P2", "P3", "L1"} -> [e EXCEPT !.log = Append(@, <<m, e.layers>>)]
      [] m = "RS" -> e
      [] m = "RE" -> [e EXCEPT !.layers = IF @ > 0 THEN @ - 1 ELSE 0]
      [] m = "AE" -> [e EXCEPT !.layers = @ + 1]
      [] m = "MI" -> [e EXCEPT !.mint = TRUE]
RECURSIVE Fold(_, _)
Fold(stack, e) == IF stack = <<>> THEN e ELSE Fold(Tail(stack), ApplyMw(Head(stack), e))

\* value type-state: "RE" needs string values; after "MI" the month is an int (such a stack may raise: C07)
Applicable(stack) == \A i, j \in DOMAIN stack : i < j => ~(stack[i] = "MI" /\ stack[j] = "RE")
Split0 == [layers |-> 1, log |-> <<>>, mint |-> FALSE, live |-> TRUE]        \* what the scanner yields for  title = {x}, month = 3
\* parse_string(text, library=L): the scanner ADDS the new blocks to L and the stack then runs over the whole library,
\* L's earlier blocks included; Pre0 is such an earlier entry (title = {{x}}, month = 3, never transformed).
Pre0 == [layers |-> 2, log |-> <<>>, mint |-> FALSE, live |-> TRUE]
ParseString(ps, app) == LET b == BuildParseStack(ps, app) IN
                        IF b.err THEN [err |-> TRUE]
                        ELSE [err |-> FALSE, e |-> Fold(b.stack, Split0), pre |-> Fold(b.stack, Pre0)]
RECURSIVE Braces(_, _)
Braces(n, s) == IF n = 0 THEN s ELSE "{" \o Braces(n - 1, s) \o "}"
\* month value as written: an int month cannot be written without enclosing ... the default stack encloses it
EntryOf(e) == [t |-> "entry", type |-> "article", key |-> "k", live |-> TRUE, fields |-> <<[k |-> "title", v |-> Braces(e.layers, "x")]>>]
DefaultFmt == [indent |-> "\t", vc |-> 0, sep |-> "\n\n", tc |-> FALSE,
               pfc |-> [pre |-> "% WARNING Parsing failed for the following ", post |-> " lines.", n |-> TRUE]]
WriteString(e0, us, pre) == LET b == BuildUnparseStack(us, pre) IN
                            IF b.err THEN [err |-> TRUE]
                            ELSE LET e == Fold(b.stack, e0) IN [err |-> FALSE, e |-> e,
                                                                  text |-> Write(IF e.live THEN <<EntryOf(e)>> ELSE <<>>, DefaultFmt)]

\* ---- splice protocol ---------------------------------------------------------
\* result kinds of transform_block for one block b (ids are block ids; "x1" "x2" fresh blocks)
SpliceOf(kind, b) ==
    CASE kind = "none" -> [err |-> FALSE, bs |-> <<>>]
      [] kind \in {"empty_list", "empty_tuple"} -> [err |-> FALSE, bs |-> <<>>]
      [] kind = "same" -> [err |-> FALSE, bs |-> <<b>>]
      [] kind \in {"other", "reused_list"} -> [err |-> FALSE, bs |-> <<"x1">>]   \* reused_list: one list object, refilled per call
      [] kind \in {"list2", "tuple2"} -> [err |-> FALSE, bs |-> <<"x1", "x2">>]
      [] kind = "list3" -> [err |-> FALSE, bs |-> <<"x1", b, "x2">>]
      [] kind \in {"generator", "int", "str", "list_with_nonblock", "dict_of_str", "object"} -> [err |-> TRUE, bs |-> <<>>]
RECURSIVE SpliceAll(_, _, _)
\* lib: sequence of [id, typ]; policy: typ -> result kind ("pass" = not handed to the middleware / returned as is)
SpliceAll(lib, policy, acc) ==
    IF lib = <<>> THEN [err |-> FALSE, bs |-> acc]
    ELSE LET b == Head(lib)
             r == IF policy[b.typ] = "pass" THEN [err |-> FALSE, bs |-> <<b.id>>] ELSE SpliceOf(policy[b.typ], b.id)
         IN IF r.err THEN [err |-> TRUE, bs |-> <<>>] ELSE SpliceAll(Tail(lib), policy, acc \o r.bs)
=============================================================================
