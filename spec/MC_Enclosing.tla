----------------------------- MODULE MC_Enclosing -----------------------------
(* All values of up to MaxLen tokens that the splitter can produce (as a field  *)
(* value or an @string value), plus Python ints: the laws of Enclosing.tla and, *)
(* composed with BibSplitter, the re-parse law.                                 *)
EXTENDS BibGrammar, Json
E == INSTANCE Enclosing
CONSTANTS MaxLen
VARIABLES v, done
Kinds == {"LB", "RB", "QT", "CM", "EQ", "SP", "W", "D", "H", "ESC"}
RECURSIVE Vals(_)
Vals(n) == IF n = 0 THEN {<<>>} ELSE LET p == Vals(n - 1) IN p \cup {Append(s, k) : s \in {x \in p : Len(x) = n - 1}, k \in Kinds}
\* adjacent words/blanks would lex as one token
NoMerge(s) == \A i \in 1..(Len(s) - 1) : ~(s[i] \in {"W", "D", "H"} /\ s[i + 1] \in {"W", "D", "H"}) /\ ~(s[i] = "SP" /\ s[i + 1] = "SP")

\* value kinds -> splitter tokens (text ids: one per kind is enough here)
TokOf(k) == CASE k = "LB" -> [k |-> "LB", w |-> 1] [] k = "RB" -> [k |-> "RB", w |-> 2] [] k = "QT" -> [k |-> "QT", w |-> 3]
              [] k = "CM" -> [k |-> "CM", w |-> 4] [] k = "EQ" -> [k |-> "EQ", w |-> 5] [] k = "SP" -> [k |-> "SP", w |-> 7]
              [] k = "W" -> [k |-> "W", w |-> 21] [] k = "D" -> [k |-> "W", w |-> 26] [] k = "H" -> [k |-> "H", w |-> 9]
              [] k = "ESC" -> [k |-> "ESC", w |-> 8]
ToksOf(s) == [i \in DOMAIN s |-> TokOf(s[i])]
EntryDoc(s) == <<[k |-> "ATE", w |-> 10], [k |-> "LB", w |-> 1], [k |-> "W", w |-> 21], [k |-> "CM", w |-> 4],
                 [k |-> "W", w |-> 22], [k |-> "EQ", w |-> 5]>> \o ToksOf(s) \o <<[k |-> "RB", w |-> 2]>>
StringDoc(s) == <<[k |-> "ATS", w |-> 13], [k |-> "LB", w |-> 1], [k |-> "W", w |-> 21], [k |-> "EQ", w |-> 5]>>
                \o ToksOf(s) \o <<[k |-> "RB", w |-> 2]>>
\* the value the scanner reports for the single field / string, as a kind sequence (<<"?">> if the document does not
\* parse to exactly that one block)
KindSeq(toks, r, s, off) == [i \in 1..(r[2] - r[1]) |-> s[r[1] + i - 1 - off]]
FieldValueOf(s) == LET t == EntryDoc(s) o == Run(t, NoFe) IN
                   IF Len(o) = 1 /\ o[1].t = "entry" /\ Len(o[1].fields) = 1 /\ o[1].to = Len(t) + 1
                   THEN KindSeq(t, o[1].fields[1].val, s, 6) ELSE <<"?">>
StringValueOf(s) == LET t == StringDoc(s) o == Run(t, NoFe) IN
                    IF Len(o) = 1 /\ o[1].t = "string" /\ o[1].to = Len(t) + 1 THEN KindSeq(t, o[1].val, s, 4) ELSE <<"?">>
AsField(s) == s # <<>> /\ ~E!IsInt(s) /\ FieldValueOf(s) = s
AsString(s) == s # <<>> /\ ~E!IsInt(s) /\ StringValueOf(s) = s
Producible == {s \in Vals(MaxLen) : NoMerge(s) /\ (AsField(s) \/ AsString(s))}

Init == v \in Producible \cup {<<"I">>, <<>>} /\ done = FALSE
\* re-parse law: a brace-balanced value (not ending in an escape) enclosed by default, written into an entry, is one
\* field whose stripped content is the value
ReparseApplies(s, def) == /\ ~E!IsInt(s) /\ E!Balanced(s) /\ (s = <<>> \/ s[Len(s)] # "ESC")
                          /\ def = "\"" => ~E!BareQuote(s, 0)
ReparseOK(s, def) == LET e == E!Wrap(s, def) IN FieldValueOf(e) = e /\ E!Strip(e).v = s /\ E!Strip(e).k = def
Next == /\ ~done /\ done' = TRUE /\ v' = v
        /\ PrintT(ToJson([v |-> v, s |-> E!Strip(v), field |-> AsField(v), string |-> AsString(v),
                          enc |-> SetToSeq({[reuse |-> o.reuse, encInts |-> o.encInts, def |-> o.def, num |-> nm, kept |-> m,
                                              r |-> E!Enclose(IF m THEN E!Strip(v).v ELSE v,
                                                              IF m THEN E!Strip(v).k ELSE "absent", nm, o)]
                                             : o \in E!Opts, nm \in BOOLEAN, m \in BOOLEAN}),
                          \* histories on ONE block: remove twice then add with reuse (the second removal records what IT found);
                          \* remove, add, remove, add
                          rra |-> IF E!IsInt(v) THEN <<>> ELSE
                                  LET s1 == E!Strip(v) s2 == E!Strip(s1.v) IN
                                  SetToSeq({[reuse |-> o.reuse, encInts |-> o.encInts, def |-> o.def, num |-> nm,
                                             r |-> E!Enclose(s2.v, s2.k, nm, o)] : o \in {x \in E!Opts : x.reuse}, nm \in BOOLEAN}),
                          rb |-> ReparseApplies(v, "{"), rq |-> ReparseApplies(v, "\""),
                          rqok |-> IF ReparseApplies(v, "\"") THEN ReparseOK(v, "\"") ELSE TRUE]))
InvStripOne == ~E!IsInt(v) => E!StripOne(v)
InvRestore  == ~E!IsInt(v) => E!Restore(v)
InvIntRule  == E!IntRule(v)
InvReparseBrace == ReparseApplies(v, "{") => ReparseOK(v, "{")
InvReparseQuote == ReparseApplies(v, "\"") => ReparseOK(v, "\"")
=============================================================================
