----------------------------- MODULE MC_EntryEq -----------------------------
(* Structural equality: every single-attribute perturbation of a template    *)
(* object of every non-failed class, every class swap, every copy.           *)
EXTENDS Entry, Json
VARIABLE pr

F(k, v, l) == [cls |-> "Field", at |-> [key |-> k, value |-> v, start_line |-> l]]
Tmpl(c) == CASE c = "Field" -> [key |-> "a", value |-> "1", start_line |-> 3]
             [] c = "Entry" -> [entry_type |-> "article", key |-> "k1",
                                fields |-> <<F("a", "1", 3), F("b", "2", 4)>>,
                                start_line |-> 2, raw |-> "r1", metadata |-> "m0"]
             [] c = "String" -> [key |-> "k1", value |-> "1", start_line |-> 2, raw |-> "r1", metadata |-> "m0"]
             [] c = "Preamble" -> [value |-> "1", start_line |-> 2, raw |-> "r1", metadata |-> "m0"]
             [] c \in {"ExplicitComment", "ImplicitComment"} ->
                                  [comment |-> "1", start_line |-> 2, raw |-> "r1", metadata |-> "m0"]
Classes == {"Field", "Entry", "String", "Preamble", "ExplicitComment", "ImplicitComment"}
Alt(a) == CASE a \in {"key", "value", "comment", "entry_type"} -> {"2", "", "A"}
            [] a = "start_line" -> {0, 7}
            [] a = "raw" -> {"r2", ""}
            [] a = "metadata" -> {"m1"}
            [] a = "fields" -> { <<F("a", "1", 3)>>,                       \* dropped field
                                 <<F("b", "2", 4), F("a", "1", 3)>>,       \* reordered
                                 <<F("a", "9", 3), F("b", "2", 4)>>,       \* one value changed
                                 <<F("A", "1", 3), F("b", "2", 4)>>,       \* one key changed (case)
                                 <<F("a", "1", 5), F("b", "2", 4)>>,       \* one field line changed
                                 <<>> }
Obj(c) == [cls |-> c, at |-> Tmpl(c)]
Perturb(c, a, v) == [cls |-> c, at |-> [Tmpl(c) EXCEPT ![a] = v]]

SamePairs == {<<Obj(c), Obj(c), "copy">> : c \in Classes}
PertPairs == UNION {UNION {{<<Obj(c), Perturb(c, a, v), a>> : v \in Alt(a)} : a \in DOMAIN Tmpl(c)} : c \in Classes}
\* same attribute dictionary under another class name (only where the attribute sets coincide)
SwapPairs == {<<Obj("ExplicitComment"), [cls |-> "ImplicitComment", at |-> Tmpl("ExplicitComment")], "class">>,
              <<Obj("ImplicitComment"), [cls |-> "ExplicitComment", at |-> Tmpl("ImplicitComment")], "class">>}

Init == pr = <<>>
Next == /\ pr = <<>>
        /\ \E p \in SamePairs \cup SwapPairs \cup PertPairs :
             /\ pr' = p
             /\ PrintT(ToJson([x |-> p[1], y |-> p[2], what |-> p[3], eq |-> Eq(p[1], p[2])]))

\* Eq is reflexive, symmetric, and separates exactly the pairs that differ
InvEq == pr # <<>> =>
           /\ Eq(pr[1], pr[1]) /\ (Eq(pr[1], pr[2]) <=> Eq(pr[2], pr[1]))
           /\ (Eq(pr[1], pr[2]) <=> pr[1] = pr[2])
           /\ (pr[3] = "copy" <=> Eq(pr[1], pr[2]))
=============================================================================
