----------------------------- MODULE Trace_Pipeline -----------------------------
(* C05 on recorded round trips.  A case holds the projection of the library       *)
(* obtained by default parsing (lib1), the format, the text written (s1), the     *)
(* projection of the library obtained by parsing s1 (lib2) and the text written   *)
(* from it (s2).  TLC checks                                                      *)
(*   write conformance   s1 = Pipeline!WriteString(lib1, fmt)                     *)
(*   content preserved   Content(lib2) = Content(lib1)                            *)
(*   fixpoint            s2 = s1   and   WriteString(lib2, fmt) = s1              *)
EXTENDS Pipeline, Json, IOUtils
Trace == JsonDeserialize(IOEnv.TRACE_FILE)
VARIABLES tid
N == Len(Trace)
Init == tid = 1
\* what C05 calls content: types, keys, field order and values, comment/preamble/string content
Content(lib) == [x \in DOMAIN lib |->
    CASE lib[x].t = "entry" -> <<"entry", lib[x].type, lib[x].key, [f \in DOMAIN lib[x].fields |-> <<lib[x].fields[f].k, lib[x].fields[f].v>>]>>
      [] lib[x].t = "string" -> <<"string", lib[x].key, lib[x].val>>
      [] lib[x].t = "preamble" -> <<"preamble", lib[x].val>>
      [] lib[x].t \in {"ecomment", "icomment"} -> <<lib[x].t, lib[x].text>>
      [] lib[x].t = "failed" -> <<"failed", lib[x].raw>>]
Next ==
    \/ /\ tid <= N
       /\ LET c == Trace[tid]
              w1 == WriteString(c.lib1, c.fmt)
              \* the two clauses of C05 first; conformance of the written text to Writer.tla is reported separately
              \* (it is C06's subject and is not a C05 violation by itself)
              bad == IF Content(c.lib2) # Content(c.lib1) THEN "content_preserved"
                     ELSE IF c.s2 # c.s1 THEN "fixpoint"
                     ELSE IF c.s1 # w1 THEN "note:write_conforms"
                     ELSE ""
          IN IF bad = "" THEN TRUE
             ELSE PrintT(ToJson([reject |-> c.id, at |-> 1, clause |-> bad, expected |-> [s1 |-> w1]]))
       /\ tid' = tid + 1
    \/ /\ tid = N + 1
       /\ PrintT(ToJson([done |-> N]))
       /\ tid' = N + 2
=============================================================================
