------------------------------ MODULE BibGrammar ------------------------------
(***************************************************************************)
(* The supported BibTeX dialect (DESIGN 3.3) as a grammar-directed          *)
(* recogniser over tokens: the declarative ground truth of C02.            *)
(*                                                                         *)
(*   Doc      ::= Gap? ( Block Gap? )*          Gap: anything without a    *)
(*                                              block-start token          *)
(*   Entry    ::= ATE LB ws* Key ws* RB                                    *)
(*              | ATE LB ws* Key ws* CM ( Field (CM Field)* CM? )? ws* RB  *)
(*   Field    ::= ws* Key ws* EQ ws* Value ws*                             *)
(*   Value    ::= Piece ( ws* "#" ws* Piece )*                             *)
(*   Piece    ::= W | LB Braced RB | QT Quoted QT                          *)
(*   String   ::= ATS LB ws* Key ws* EQ ws* Value ws* RB                   *)
(*   Preamble ::= ATP LB Braced RB       Comment ::= ATC LB Braced RB      *)
(*   Key      ::= W                                                        *)
(* Braced: balanced braces, quotes inert.  Quoted: balanced braces, no     *)
(* unescaped quote at depth 0 (a quote inside braces is inert), no stray   *)
(* "}".  Kind "H" is the token "#" on its own.                             *)
(*                                                                         *)
(* Every parse function returns 0 on failure.  Recognise(toks) returns     *)
(* [ok, blocks] with blocks in the record format of BibSplitter, so that   *)
(* C02 on the model is the equation  Recognise(t).ok => Run(t) = blocks.   *)
(***************************************************************************)
EXTENDS BibSplitter

K(toks, i) == IF i >= 1 /\ i <= Len(toks) THEN toks[i].k ELSE "EOF"
Skip(toks, i) == SkipWsFwd(toks, i, Len(toks) + 1)

\* index of the RB matching the LB at i, looking no further than lim (exclusive); 0 if none
MatchBrace(toks, i, lim) ==
    FoldLeft(LAMBDA a, x : IF a.j # 0 THEN a
                           ELSE IF toks[x].k = "LB" THEN [a EXCEPT !.d = @ + 1]
                           ELSE IF toks[x].k = "RB" THEN (IF a.d = 0 THEN [a EXCEPT !.j = x] ELSE [a EXCEPT !.d = @ - 1])
                           ELSE a,
             [d |-> 0, j |-> 0], [x \in 1..(lim - i - 1) |-> i + x]).j
\* index of the QT closing the QT at i: the first quote at brace depth 0, braces balanced in between, no stray "}"
MatchQuote(toks, i, lim) ==
    LET r == FoldLeft(LAMBDA a, x : IF a.j # 0 \/ a.bad THEN a
                           ELSE IF toks[x].k = "QT" THEN (IF a.d = 0 THEN [a EXCEPT !.j = x] ELSE a)
                           ELSE IF toks[x].k = "LB" THEN [a EXCEPT !.d = @ + 1]
                           ELSE IF toks[x].k = "RB" THEN (IF a.d = 0 THEN [a EXCEPT !.bad = TRUE] ELSE [a EXCEPT !.d = @ - 1])
                           ELSE a,
             [d |-> 0, j |-> 0, bad |-> FALSE], [x \in 1..(lim - i - 1) |-> i + x])
    IN IF r.bad THEN 0 ELSE r.j

\* Piece starting at i: returns the index after it (0 = no piece)
Piece(toks, i, lim) ==
    CASE K(toks, i) = "W"  -> i + 1
      [] K(toks, i) = "LB" -> LET j == MatchBrace(toks, i, lim) IN IF j = 0 THEN 0 ELSE j + 1
      [] K(toks, i) = "QT" -> LET j == MatchQuote(toks, i, lim) IN IF j = 0 THEN 0 ELSE j + 1
      [] OTHER -> 0
RECURSIVE ValueEnd(_, _, _)
\* Value starting at i: index after its last piece (0 = no value)
ValueEnd(toks, i, lim) ==
    LET p == Piece(toks, i, lim) IN
    IF p = 0 THEN 0
    ELSE LET h == Skip(toks, p) IN
         IF K(toks, h) = "H" THEN ValueEnd(toks, Skip(toks, h + 1), lim) ELSE p

LineAt(toks, i) == CountNL(toks, 1, i)

RECURSIVE Fields(_, _, _, _)
\* fields after a comma at position c (c = index after that comma); returns [ok, fs, close] (close = index of the final RB)
Fields(toks, c, lim, acc) ==
    LET k == Skip(toks, c) IN
    IF K(toks, k) = "RB" THEN [ok |-> TRUE, fs |-> acc, close |-> k]
    ELSE IF K(toks, k) # "W" THEN [ok |-> FALSE, fs |-> acc, close |-> 0]
    ELSE LET e == Skip(toks, k + 1) IN
         IF K(toks, e) # "EQ" THEN [ok |-> FALSE, fs |-> acc, close |-> 0]
         ELSE LET v == Skip(toks, e + 1)
                  ve == ValueEnd(toks, v, lim)
              IN IF ve = 0 THEN [ok |-> FALSE, fs |-> acc, close |-> 0]
                 ELSE LET f == [key |-> <<k, k + 1>>, val |-> <<v, ve>>, line |-> LineAt(toks, e)]
                          a == Skip(toks, ve)
                      IN IF K(toks, a) = "CM" THEN Fields(toks, a + 1, lim, Append(acc, f))
                         ELSE IF K(toks, a) = "RB" THEN [ok |-> TRUE, fs |-> Append(acc, f), close |-> a]
                         ELSE [ok |-> FALSE, fs |-> acc, close |-> 0]

DistinctKeys(toks, fs) == \A x, y \in DOMAIN fs : Sig(toks, fs[x].key) = Sig(toks, fs[y].key) => x = y

\* the block starting at the block-start token a (lim = next block-start token or n+1); [ok, b]
Block(toks, a, lim) ==
    LET fail == [ok |-> FALSE, b |-> <<>>]
        ln == LineAt(toks, a)
    IN
    IF K(toks, a + 1) # "LB" THEN fail
    ELSE IF K(toks, a) \in {"ATC", "ATP"} THEN
        LET j == MatchBrace(toks, a + 1, lim) IN
        IF j = 0 THEN fail
        ELSE [ok |-> TRUE, b |-> IF K(toks, a) = "ATC"
                                 THEN [t |-> "ecomment", from |-> a, to |-> j + 1, line |-> ln, val |-> Trim(toks, a + 2, j)]
                                 ELSE [t |-> "preamble", from |-> a, to |-> j + 1, line |-> ln, val |-> <<a + 2, j>>]]
    ELSE IF K(toks, a) = "ATS" THEN
        LET k == Skip(toks, a + 2)
            e == Skip(toks, k + 1)
            v == Skip(toks, e + 1)
            ve == IF K(toks, k) = "W" /\ K(toks, e) = "EQ" THEN ValueEnd(toks, v, lim) ELSE 0
            r == Skip(toks, ve)
        IN IF ve = 0 \/ K(toks, r) # "RB" THEN fail
           ELSE [ok |-> TRUE, b |-> [t |-> "string", from |-> a, to |-> r + 1, line |-> ln, key |-> <<k, k + 1>>, val |-> <<v, ve>>]]
    ELSE \* ATE
        LET k == Skip(toks, a + 2)
            x == Skip(toks, k + 1)
        IN IF K(toks, k) # "W" THEN fail
           ELSE IF K(toks, x) = "RB"
           THEN [ok |-> TRUE, b |-> [t |-> "entry", from |-> a, to |-> x + 1, line |-> ln, at |-> a, key |-> <<k, k + 1>>, fields |-> <<>>]]
           ELSE IF K(toks, x) # "CM" THEN fail
           ELSE LET r == Fields(toks, x + 1, lim, <<>>) IN
                IF ~r.ok \/ ~DistinctKeys(toks, r.fs) THEN fail
                ELSE [ok |-> TRUE, b |-> [t |-> "entry", from |-> a, to |-> r.close + 1, line |-> ln, at |-> a,
                                          key |-> <<k, k + 1>>, fields |-> r.fs]]

Gap(toks, from, to, acc) ==
    LET r == Trim(toks, from, to) IN
    IF r[1] >= r[2] THEN acc ELSE Append(acc, [t |-> "icomment", from |-> r[1], to |-> r[2], line |-> LineAt(toks, r[1])])

RECURSIVE Doc(_, _, _)
Doc(toks, pos, acc) ==
    LET a == NextAT(toks, pos) IN
    IF a > Len(toks) THEN [ok |-> TRUE, blocks |-> Gap(toks, pos, a, acc)]
    ELSE LET b == Block(toks, a, NextAT(toks, a + 1)) IN
         IF ~b.ok THEN [ok |-> FALSE, blocks |-> acc]
         ELSE Doc(toks, b.b.to, Append(Gap(toks, pos, a, acc), b.b))

\* keys of entries (and of strings) are pairwise distinct: otherwise the library flags duplicates (C09's subject)
BlockKeysDistinct(toks, bs) ==
    \A x, y \in DOMAIN bs : x < y /\ bs[x].t = bs[y].t /\ bs[x].t \in {"entry", "string"} =>
        Sig(toks, bs[x].key) # Sig(toks, bs[y].key)

Recognise(toks) ==
    LET d == Doc(toks, 1, <<>>) IN
    [ok |-> d.ok /\ BlockKeysDistinct(toks, d.blocks), blocks |-> d.blocks]
=============================================================================
