------------------------------- MODULE NameParse -------------------------------
(***************************************************************************)
(* parse_single_name_into_parts (strict mode) - C13, C14.                   *)
(*                                                                          *)
(* Input: a sequence of character tokens                                    *)
(*   "U" "L"   an upper / lower case letter      "Z"  a caseless character   *)
(*   "W"       blank (space, tab, CR, LF)        "T"  the tie "~"            *)
(*   "C"       comma       "{" "}"  braces                                   *)
(*   "EU" "EL" "EA"  a backslash followed by an upper-case letter / a lower- *)
(*             case letter / an accent sign (one token: the escaped          *)
(*             character is inert)                                           *)
(* Operational side: the single-pass tokenizer of the code (sections, words, *)
(* word case, brace level, special characters) and the partition of the     *)
(* three BibTeX forms.  Declarative side: top-level structure, BibTeX's case *)
(* rule (within InCaseScope) and the reference partition of DESIGN App. C.   *)
(* A word is a range <<from, to>> of token positions (half-open).            *)
(***************************************************************************)
EXTENDS Naturals, Integers, Sequences, FiniteSets, SequencesExt, TLC

Alpha(c) == c \in {"U", "L"}
CaseOf(c) == IF c \in {"U", "EU"} THEN "U" ELSE "L"
Sep(c) == c \in {"W", "T"}

\* ---- operational: tokenizer -----------------------------------------------------------
TInit == [secs |-> <<<<>>>>, ws |-> 0, case |-> "Z", lvl |-> 0, bstart |-> FALSE, cseq |-> TRUE, spec |-> FALSE, err |-> ""]
\* ws = start of the current word (0 = no word open); a word of section s is [r |-> <<from, to>>, c |-> case]
Open(st, i) == IF st.ws = 0 THEN [st EXCEPT !.ws = i] ELSE st
EndWord(st, i) ==
    IF st.ws = 0 THEN st
    ELSE [st EXCEPT !.secs[Len(st.secs)] = Append(@, [r |-> <<st.ws, i>>, c |-> st.case]),
                    !.ws = 0, !.case = "Z", !.cseq = FALSE, !.spec = FALSE]
TStep(st, s, i) ==
    LET c == s[i] IN
    IF st.err # "" THEN st
    ELSE IF c \in {"EU", "EL", "EA"} THEN
        LET o == Open(st, i) IN
        IF st.bstart THEN [o EXCEPT !.bstart = FALSE, !.cseq = (c # "EA"), !.spec = TRUE]
        ELSE IF st.case = "Z" /\ c # "EA" THEN [o EXCEPT !.case = CaseOf(c)]
        ELSE o
    ELSE IF c = "{" THEN [Open(st, i) EXCEPT !.lvl = @ + 1, !.bstart = TRUE, !.cseq = FALSE, !.spec = FALSE]
    ELSE LET s0 == [st EXCEPT !.bstart = FALSE] IN
         IF c = "}" THEN
             IF s0.lvl = 0 THEN [s0 EXCEPT !.err = "unmatched_closing_brace"]
             ELSE [Open(s0, i) EXCEPT !.lvl = @ - 1, !.cseq = FALSE, !.spec = FALSE]
         ELSE IF s0.lvl > 0 THEN
             LET o == Open(s0, i) IN
             IF s0.cseq THEN (IF ~Alpha(c) THEN [o EXCEPT !.cseq = FALSE] ELSE o)
             ELSE IF s0.spec /\ s0.case = "Z" /\ Alpha(c) THEN [o EXCEPT !.case = CaseOf(c)]
             ELSE o
         ELSE IF c = "C" \/ Sep(c) THEN
             LET e == EndWord(s0, i) IN
             IF c = "C" THEN (IF Len(e.secs) < 3 THEN [e EXCEPT !.secs = Append(@, <<>>)] ELSE [e EXCEPT !.err = "too_many_commas"])
             ELSE e
         ELSE LET o == Open(s0, i) IN IF o.case = "Z" /\ Alpha(c) THEN [o EXCEPT !.case = CaseOf(c)] ELSE o

Tokenize(s) ==
    LET f == FoldLeft(LAMBDA st, i : TStep(st, s, i), TInit, [i \in DOMAIN s |-> i]) IN
    IF f.err # "" THEN [err |-> f.err, secs |-> <<>>]
    ELSE IF f.lvl > 0 THEN [err |-> "unterminated_opening_brace", secs |-> <<>>]
    ELSE LET e == EndWord(f, Len(s) + 1).secs IN
         IF e[Len(e)] = <<>> THEN (IF Len(e) > 1 THEN [err |-> "trailing_comma", secs |-> <<>>]
                                   ELSE [err |-> "", secs |-> <<>>])
         ELSE [err |-> "", secs |-> e]

\* ---- operational: partition (the three forms) ------------------------------------------
Cases(sec) == [i \in DOMAIN sec |-> sec[i].c]
FirstL(cs) == CHOOSE i \in DOMAIN cs : cs[i] = "L" /\ \A j \in DOMAIN cs : cs[j] = "L" => i <= j
\* last lower-case word that is not the final word (0 if none)
LastInnerL(cs) == LET c == {i \in 1..(Len(cs) - 1) : cs[i] = "L"} IN IF c = {} THEN 0 ELSE CHOOSE i \in c : \A j \in c : j <= i
Sub(s, a, b) == IF a > b THEN <<>> ELSE SubSeq(s, a, b)
Empty == [first |-> <<>>, von |-> <<>>, last |-> <<>>, jr |-> <<>>]
Partition(secs) ==
    IF secs = <<>> \/ \A i \in DOMAIN secs : secs[i] = <<>> THEN Empty
    ELSE IF Len(secs) = 1 THEN
        LET p == secs[1] n == Len(p) cs == Cases(p) IN
        IF n = 1 THEN [Empty EXCEPT !.last = p]
        ELSE IF n = 2 THEN [Empty EXCEPT !.first = Sub(p, 1, 1), !.last = Sub(p, 2, 2)]
        ELSE IF \E i \in DOMAIN cs : cs[i] = "L" THEN
             LET i == FirstL(cs)
                 j == IF LastInnerL(cs) = 0 THEN i - 1 ELSE LastInnerL(cs)
             IN [first |-> Sub(p, 1, i - 1), von |-> Sub(p, i, j), last |-> Sub(p, j + 1, n), jr |-> <<>>]
        ELSE [Empty EXCEPT !.first = Sub(p, 1, n - 1), !.last = Sub(p, n, n)]
    ELSE
        LET p == secs[1] n == Len(p) cs == Cases(p)
            j == IF n <= 1 THEN 0 ELSE LastInnerL(cs)
        IN [first |-> secs[Len(secs)], jr |-> IF Len(secs) = 3 THEN secs[2] ELSE <<>>,
            von |-> Sub(p, 1, j), last |-> Sub(p, j + 1, n)]
Parse(s) == LET t == Tokenize(s) IN IF t.err # "" THEN [err |-> t.err] ELSE [err |-> "", parts |-> Partition(t.secs), secs |-> t.secs]

\* ---- declarative -------------------------------------------------------------------------
\* depth before each position (escapes are single tokens, hence inert by construction)
Depths(s) == FoldLeft(LAMBDA a, i : [d |-> IF s[i] = "{" THEN a.d + 1 ELSE IF s[i] = "}" THEN a.d - 1 ELSE a.d,
                                      before |-> Append(a.before, a.d), neg |-> a.neg \/ (s[i] = "}" /\ a.d = 0)],
                  [d |-> 0, before |-> <<>>, neg |-> FALSE], [i \in DOMAIN s |-> i])
TopSep(s, D, i) == D.before[i] = 0 /\ (s[i] = "C" \/ Sep(s[i]))
TopComma(s, D, i) == D.before[i] = 0 /\ s[i] = "C"
\* the errors of the statement: unbalanced braces, too many commas, trailing comma
RefError(s) ==
    LET D == Depths(s)
        commas == {i \in DOMAIN s : TopComma(s, D, i)}
    IN IF D.neg \/ D.d # 0 THEN TRUE
       ELSE IF Cardinality(commas) > 2 THEN TRUE
       ELSE commas # {} /\ \A i \in DOMAIN s : i > (CHOOSE m \in commas : \A k \in commas : k <= m) => TopSep(s, D, i)
\* top-level words: maximal runs of positions that are not top-level separators
RefWords(s) ==
    LET D == Depths(s) IN
    {<<a, b>> \in (DOMAIN s) \X (2..(Len(s) + 1)) :
        /\ a < b /\ \A i \in a..(b - 1) : ~TopSep(s, D, i)
        /\ (a = 1 \/ TopSep(s, D, a - 1)) /\ (b = Len(s) + 1 \/ TopSep(s, D, b))}
\* BibTeX's case of a word [a, b): first letter at depth 0 (an escaped letter counts), or the first letter after the control
\* sequence of a special character {\cs ...}; other groups are skipped
InCaseScope(s, w) ==          \* no escape inside a group except the one opening a special character; no nested group
    LET D == Depths(s) IN
    \A i \in w[1]..(w[2] - 1) :
        /\ (s[i] \in {"EU", "EL", "EA"} /\ D.before[i] > 0) => (i > 1 /\ s[i - 1] = "{" /\ D.before[i] = 1)
        /\ (s[i] = "{" /\ D.before[i] >= 1) => FALSE
RECURSIVE RefCaseFrom(_, _, _, _, _)
\* mode: "top" depth 0 | "cs" control-sequence name of a special character | "sp" body of a special character |
\*       "skip" inside an ordinary group
RefCaseFrom(s, D, i, b, mode) ==
    IF i >= b THEN "Z"
    ELSE CASE mode = "top" ->
                 IF s[i] \in {"U", "L", "EU", "EL"} THEN CaseOf(s[i])
                 ELSE IF s[i] = "{" /\ i + 1 < b /\ s[i + 1] \in {"EU", "EL"} THEN RefCaseFrom(s, D, i + 2, b, "cs")
                 ELSE IF s[i] = "{" /\ i + 1 < b /\ s[i + 1] = "EA" THEN RefCaseFrom(s, D, i + 2, b, "sp")
                 ELSE IF s[i] = "{" THEN RefCaseFrom(s, D, i + 1, b, "skip")
                 ELSE RefCaseFrom(s, D, i + 1, b, "top")
           [] mode = "cs" ->
                 IF Alpha(s[i]) THEN RefCaseFrom(s, D, i + 1, b, "cs")
                 ELSE IF s[i] = "}" THEN RefCaseFrom(s, D, i + 1, b, "top")
                 ELSE RefCaseFrom(s, D, i + 1, b, "sp")
           [] mode = "sp" ->
                 IF Alpha(s[i]) THEN CaseOf(s[i])
                 ELSE IF s[i] = "}" THEN RefCaseFrom(s, D, i + 1, b, "top")
                 ELSE RefCaseFrom(s, D, i + 1, b, "sp")
           [] mode = "skip" ->
                 IF s[i] = "}" /\ D.before[i] = 1 THEN RefCaseFrom(s, D, i + 1, b, "top")
                 ELSE RefCaseFrom(s, D, i + 1, b, "skip")
RefCase(s, w) == RefCaseFrom(s, Depths(s), w[1], w[2], "top")

\* reference partition on a section given as sequence of word cases: returns <<i, j>>: von = words i..j
RefVon1(cs) ==       \* comma-free form, n >= 3
    IF ~\E x \in DOMAIN cs : cs[x] = "L" THEN <<Len(cs), Len(cs) - 1>>
    ELSE LET i == FirstL(cs) j == LastInnerL(cs) IN <<i, IF j = 0 THEN i - 1 ELSE j>>

\* the statement of C13 about a successful parse
WordsOf(part) == [i \in DOMAIN part |-> part[i].r]
PartsOK(s, res) ==
    LET p == res.parts
        all == WordsOf(p.first) \o WordsOf(p.von) \o WordsOf(p.last) \o WordsOf(p.jr)
    IN /\ {all[i] : i \in DOMAIN all} = RefWords(s) /\ Len(all) = Cardinality(RefWords(s))             \* every word once
       /\ \A part \in {p.first, p.von, p.last, p.jr} : \A i \in 1..(Len(part) - 1) : part[i].r[2] <= part[i + 1].r[1]   \* source order
       /\ \A sec \in {res.secs[k] : k \in DOMAIN res.secs} : \A i \in DOMAIN sec :
              InCaseScope(s, sec[i].r) => sec[i].c = RefCase(s, sec[i].r)
       /\ IF Len(res.secs) = 1 THEN
              LET sec == res.secs[1] n == Len(sec) IN
              IF n = 1 THEN p.last = sec /\ p.first = <<>> /\ p.von = <<>>
              ELSE IF n = 2 THEN p.first = Sub(sec, 1, 1) /\ p.last = Sub(sec, 2, 2) /\ p.von = <<>>
              ELSE LET v == RefVon1(Cases(sec)) IN
                   p.von = Sub(sec, v[1], v[2]) /\ p.first = Sub(sec, 1, v[1] - 1) /\ p.last = Sub(sec, v[2] + 1, n) /\ p.last # <<>>
          ELSE IF Len(res.secs) >= 2 THEN
              LET sec == res.secs[1] n == Len(sec) j == IF n <= 1 THEN 0 ELSE LastInnerL(Cases(sec)) IN
              /\ p.von = Sub(sec, 1, j) /\ p.last = Sub(sec, j + 1, n) /\ (n > 0 => p.last # <<>>)
              /\ p.first = res.secs[Len(res.secs)] /\ p.jr = (IF Len(res.secs) = 3 THEN res.secs[2] ELSE <<>>)
          ELSE p = Empty
=============================================================================
