--------------------------- MODULE Trace_EntryEq ---------------------------
(* T3 for structural equality: pairs of real objects, projected to           *)
(* [cls, at], with the observed verdicts of == and !=.                       *)
EXTENDS Entry, Json, IOUtils
Trace == JsonDeserialize(IOEnv.TRACE_FILE)
VARIABLES tid
N == Len(Trace)
Init == tid = 1
Next ==
    \/ /\ tid <= N
       /\ LET c == Trace[tid]
              want == Eq(c.x, c.y)
              bad == IF c.what \in {"copy", "deepcopy", "self"} /\ (~c.eq \/ c.x # c.y) THEN "copy_equal"   \* a copy has the content of its original
                     ELSE IF c.eq # want THEN "eq" ELSE IF c.ne # ~want THEN "ne"
                     ELSE IF c.eq_rev # want THEN "eq_symmetric" ELSE ""
          IN IF bad = "" THEN TRUE
             ELSE PrintT(ToJson([reject |-> c.id, at |-> 1, clause |-> bad, expected |-> [eq |-> want]]))
       /\ tid' = tid + 1
    \/ /\ tid = N + 1
       /\ PrintT(ToJson([done |-> N]))
       /\ tid' = N + 2
=============================================================================
