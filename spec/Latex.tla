--------------------------------- MODULE Latex ---------------------------------
(***************************************************************************)
(* LatexEncodingMiddleware / LatexDecodingMiddleware (C18): scope, types    *)
(* and error containment.  The character-level conversion is third-party    *)
(* data, not design: it is an uninterpreted, possibly failing function      *)
(*      Conv(x) = <<"conv", x>>     unless x \in fail                       *)
(* A library is a sequence of blocks                                        *)
(*   [t |-> "entry", fields |-> seq of [k, vt, v]]   vt: "str" "int"        *)
(*        "liststr" "np" (a NameParts object) "nplist" (list of NameParts)  *)
(*   [t |-> "string", v]      [t |-> "other"] (preamble, comments, failed)  *)
(* where v is an atom (string values), a sequence of atoms (liststr), a     *)
(* NameParts record of four sequences of atoms (np) or a sequence of those. *)
(***************************************************************************)
EXTENDS Naturals, Sequences, FiniteSets, TLC

Conv(x) == <<"conv", x>>
MapConv(xs, fail) == [i \in DOMAIN xs |-> IF xs[i] \in fail THEN xs[i] ELSE Conv(xs[i])]
AnyFail(xs, fail) == \E i \in DOMAIN xs : xs[i] \in fail

\* what is handed to the converter in one field
Attempted(f) == CASE f.vt = "str" -> <<f.v>>
                  [] f.vt = "np" -> f.v.first \o f.v.last \o f.v.von \o f.v.jr
                  [] OTHER -> <<>>
FieldAfter(f, fail) ==
    CASE f.vt = "str" -> [f EXCEPT !.v = IF f.v \in fail THEN f.v ELSE Conv(f.v)]
      [] f.vt = "np"  -> [f EXCEPT !.v = [first |-> MapConv(f.v.first, fail), von |-> MapConv(f.v.von, fail),
                                         last |-> MapConv(f.v.last, fail), jr |-> MapConv(f.v.jr, fail)]]
      [] OTHER -> f                                   \* ints, lists: not touched
BlockAfter(b, fail) ==
    CASE b.t = "entry" ->
            LET fs == [i \in DOMAIN b.fields |-> FieldAfter(b.fields[i], fail)]
                failed == \E i \in DOMAIN b.fields : AnyFail(Attempted(b.fields[i]), fail)
            IN IF failed THEN [t |-> "mwerror", inner |-> [b EXCEPT !.fields = fs]] ELSE [b EXCEPT !.fields = fs]
      [] b.t = "string" -> IF b.v \in fail THEN [t |-> "mwerror", inner |-> b] ELSE [b EXCEPT !.v = Conv(b.v)]
      [] OTHER -> b
Transform(lib, fail) == [x \in DOMAIN lib |-> BlockAfter(lib[x], fail)]

\* ---- the statement: scope, types, containment -------------------------------------
IsStringVal(v) == v \in STRING \/ (v # <<>> /\ v[1] = "conv")     \* an atom or a converted atom: still a string
Inner(b) == IF b.t = "mwerror" THEN b.inner ELSE b
ScopeOK(lib, out) ==
    /\ Len(out) = Len(lib)                                                     \* one block per block, never an exception
    /\ \A x \in DOMAIN lib :
         LET a == lib[x] b == Inner(out[x]) IN
         /\ b.t = a.t
         /\ a.t = "other" => out[x] = a                                        \* other blocks untouched
         /\ a.t = "entry" =>
              /\ Len(b.fields) = Len(a.fields)
              /\ \A i \in DOMAIN a.fields :
                   /\ b.fields[i].k = a.fields[i].k /\ b.fields[i].vt = a.fields[i].vt     \* keys and value types intact
                   /\ a.fields[i].vt \in {"int", "liststr", "nplist"} => b.fields[i].v = a.fields[i].v
ContainmentOK(lib, out, fail) ==
    \A x \in DOMAIN lib :
        LET tried == IF lib[x].t = "entry" THEN UNION {{Attempted(lib[x].fields[i])[j] : j \in DOMAIN Attempted(lib[x].fields[i])} : i \in DOMAIN lib[x].fields}
                     ELSE IF lib[x].t = "string" THEN {lib[x].v} ELSE {}
        IN (out[x].t = "mwerror") <=> (tried \cap fail # {})
=============================================================================
