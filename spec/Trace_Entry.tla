---------------------------- MODULE Trace_Entry ----------------------------
(* Trace validation (T3) for model.Entry: histories recorded from the real  *)
(* object are checked, event by event, against Entry!Step and the three     *)
(* views.  Many histories per file; a rejected history is reported with the *)
(* first failing clause and skipped, the rest is still checked.             *)
EXTENDS Entry, Json, IOUtils
Trace == JsonDeserialize(IOEnv.TRACE_FILE)
VARIABLES tid, l, fs
vars == <<tid, l, fs>>
N == Len(Trace)
InitOf(t) == IF t <= N THEN Trace[t].init ELSE <<>>
Init == tid = 1 /\ l = 1 /\ fs = InitOf(1)
NextCase == tid' = tid + 1 /\ l' = 1 /\ fs' = InitOf(tid + 1)
Bad(e, exp, ety, eid) ==
    IF exp.res # e.r THEN "result"
    ELSE IF exp.fs # e.t THEN "fields"
    ELSE IF ViewDict(exp.fs) # e.d THEN "fields_dict"
    ELSE IF ViewItems(exp.fs, ety, eid) # e.it THEN "items"
    ELSE IF ~Refines(fs, [op |-> e.op, k |-> e.k, v |-> e.v], ety, eid) THEN "ordered_dict"
    ELSE ""
Next ==
    \/ /\ tid <= N
       /\ IF l <= Len(Trace[tid].ev)
          THEN LET c == Trace[tid]
                   e == c.ev[l]
                   exp == Step(fs, [op |-> e.op, k |-> e.k, v |-> e.v], c.ety, c.eid)
                   bad == Bad(e, exp, c.ety, c.eid)
               IN IF bad = "" THEN tid' = tid /\ l' = l + 1 /\ fs' = exp.fs
                  ELSE /\ PrintT(ToJson([reject |-> c.id, at |-> l, clause |-> bad,
                                         expected |-> [r |-> exp.res, t |-> exp.fs]]))
                       /\ NextCase
          ELSE NextCase
    \/ /\ tid = N + 1
       /\ PrintT(ToJson([done |-> N]))
       /\ tid' = N + 2 /\ UNCHANGED <<l, fs>>
=============================================================================
