------------------------------- MODULE MC_Interp -------------------------------
(* Every document made of one entry (1-2 fields with values from the reference   *)
(* value pool) placed among up to MaxStrings @string definitions (before, after, *)
(* duplicated, case-different, chained, absent).                                  *)
EXTENDS Interpolate, Json
CONSTANTS MaxStrings
VARIABLES doc, done
T == [ATE |-> [k |-> "ATE", w |-> 10], ATS |-> [k |-> "ATS", w |-> 13], LB |-> [k |-> "LB", w |-> 1], RB |-> [k |-> "RB", w |-> 2],
      QT |-> [k |-> "QT", w |-> 3], CM |-> [k |-> "CM", w |-> 4], EQ |-> [k |-> "EQ", w |-> 5], NL |-> [k |-> "NL", w |-> 6],
      SP |-> [k |-> "SP", w |-> 7], H |-> [k |-> "H", w |-> 9],
      s |-> [k |-> "W", w |-> 41], S |-> [k |-> "W", w |-> 42], t |-> [k |-> "W", w |-> 43], u |-> [k |-> "W", w |-> 44],
      N |-> [k |-> "W", w |-> 45], K |-> [k |-> "W", w |-> 46], F |-> [k |-> "W", w |-> 47], G |-> [k |-> "W", w |-> 48],
      X |-> [k |-> "W", w |-> 49], Y |-> [k |-> "W", w |-> 50]]
Of(names) == [i \in DOMAIN names |-> T[names[i]]]
\* field values: bare s, bare t, bare u (never defined), {s}, "s", S (other case), s # s, a number
Values == << <<"s">>, <<"t">>, <<"u">>, <<"LB", "s", "RB">>, <<"QT", "s", "QT">>, <<"S">>, <<"s", "SP", "H", "SP", "s">>, <<"N">> >>
Strings == << <<"ATS", "LB", "s", "EQ", "QT", "X", "QT", "RB">>,          \* 1  s = "X"
              <<"ATS", "LB", "s", "EQ", "LB", "Y", "RB", "RB">>,          \* 2  s = {Y}      (second definition)
              <<"ATS", "LB", "S", "EQ", "QT", "Y", "SP", "X", "QT", "RB">>, \* 3  S = "Y X"
              <<"ATS", "LB", "t", "EQ", "s", "RB">>,                      \* 4  t = s        (a chain: one level only)
              <<"ATS", "LB", "t", "EQ", "QT", "s", "QT", "SP", "H", "SP", "s", "RB">> >>   \* 5  t = "s" # s
Entry1(a) == <<"ATE", "LB", "K", "CM", "F", "EQ">> \o Values[a] \o <<"RB">>
Entry2(a, b) == <<"ATE", "LB", "K", "CM", "F", "EQ">> \o Values[a] \o <<"CM", "SP", "G", "EQ">> \o Values[b] \o <<"CM", "RB">>
RECURSIVE SSeqs(_)
SSeqs(n) == IF n = 0 THEN {<<>>} ELSE LET p == SSeqs(n - 1) IN p \cup {Append(q, i) : q \in {x \in p : Len(x) = n - 1}, i \in DOMAIN Strings}
Entries == {Entry1(a) : a \in DOMAIN Values} \cup {Entry2(a, b) : a \in DOMAIN Values, b \in DOMAIN Values}
RECURSIVE Cat(_)
Cat(q) == IF q = <<>> THEN <<>> ELSE Strings[Head(q)] \o <<"NL">> \o Cat(Tail(q))
Docs == UNION {{Cat(SubSeq(q, 1, i)) \o e \o <<"NL">> \o Cat(SubSeq(q, i + 1, Len(q))) : i \in 0..Len(q), e \in Entries} : q \in SSeqs(MaxStrings)}

Init == doc \in {d \in Docs : TRUE} /\ done = FALSE
Next == /\ ~done /\ done' = TRUE /\ doc' = doc
        /\ LET tk == Of(doc) o == Run(tk, NoFe) IN
           PrintT(ToJson([w |-> [i \in DOMAIN tk |-> tk[i].w], out |-> o, parsed |-> Parsed(tk, o)]))
InvResolved == LET tk == Of(doc) IN ResolvedExactly(tk, Run(tk, NoFe))
=============================================================================
