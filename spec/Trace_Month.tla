----------------------------- MODULE Trace_Month -----------------------------
(* T3: values of any kind recorded through the real middlewares.  c.v is the  *)
(* abstraction of the input, c.res of the result, c.same = unchanged incl.    *)
(* type, c.out = "ok" or the exception type.                                  *)
EXTENDS Month, Json, IOUtils
Trace == JsonDeserialize(IOEnv.TRACE_FILE)
VARIABLES tid
N == Len(Trace)
Init == tid = 1
RECURSIVE Fold(_, _)
Fold(fs, x) == IF fs = <<>> THEN x ELSE Fold(Tail(fs), Op(Head(fs), x))
Norm(x) == IF "up" \in DOMAIN x THEN [x EXCEPT !.up = {x.up[i] : i \in DOMAIN x.up}] ELSE x
Next ==
    \/ /\ tid <= N
       /\ LET c == Trace[tid]
              want == Fold(c.fs, Norm(c.v))
              bad == IF c.out # "ok" THEN "total"
                     ELSE IF c.v.t = "ambiguous" THEN ""                 \* only the no-exception claim
                     ELSE IF ~IsMonth(Norm(c.v)) THEN (IF c.same THEN "" ELSE "identity")
                     ELSE IF ~SameText(Norm(c.res), want) THEN "table"
                     ELSE ""
          IN IF bad = "" THEN TRUE
             ELSE PrintT(ToJson([reject |-> c.id, at |-> 1, clause |-> bad,
                                 expected |-> IF c.v.t = "ambiguous" THEN [t |-> "no exception"] ELSE want]))
       /\ tid' = tid + 1
    \/ /\ tid = N + 1
       /\ PrintT(ToJson([done |-> N]))
       /\ tid' = N + 2
=============================================================================
