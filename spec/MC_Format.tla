------------------------------ MODULE MC_Format ------------------------------
(* T1: every history of <= MaxLen assignments over a value pool: the column *)
(* stays well-formed, a rejected assignment changes nothing, reads return   *)
(* the last accepted write.  T2: every edge exported for replay.            *)
EXTENDS Format, Json, TLC
CONSTANTS MaxLen
VARIABLES f, n, last
vars == <<f, n, last>>
Pool == {[t |-> "int", n |-> 0], [t |-> "int", n |-> 7], [t |-> "int", n |-> -1], [t |-> "str", s |-> "auto"], [t |-> "str", s |-> "Auto"],
         [t |-> "str", s |-> ""], [t |-> "bool", b |-> TRUE], [t |-> "bool", b |-> FALSE], [t |-> "none"], [t |-> "float", n |-> 2]}
Init == f = Default /\ n = 0 /\ last = [a |-> "", v |-> [t |-> "none"], ok |-> TRUE]
Next == /\ n < MaxLen
        /\ \E a \in Attrs, v \in Pool :
             LET r == Set(f, a, v) IN
             /\ f' = r.f /\ n' = n + 1 /\ last' = [a |-> a, v |-> v, ok |-> r.ok]
             /\ PrintT(ToJson([f |-> f, a |-> a, v |-> v, ok |-> r.ok, g |-> r.f]))
InvWellFormed == WellFormed(f)
InvReadBack == last.a # "" /\ last.ok => Get(f, last.a) = last.v
RejectKeeps == [][~last'.ok => f' = f]_vars
OnlyNamed == [][\A a \in Attrs : a # last'.a => Get(f', a) = Get(f, a)]_vars
=============================================================================
