------------------------------- MODULE Blocks -------------------------------
(***************************************************************************)
(* The non-entry blocks of model.py (String, Preamble, ExplicitComment,    *)
(* ImplicitComment) as plain records on a heap (spec growth X04; Entry is   *)
(* Entry.tla / C19, failed blocks are Library.tla / C08-C09).               *)
(*                                                                          *)
(* A block is [cls, key, a, line, raw, meta]: `a` is the one text attribute *)
(* (value / comment), `key` only means something for a String, `meta` is    *)
(* the parser_metadata store as a function from keys to values.             *)
(* Equality is content equality of same-class blocks - start line, raw text *)
(* and metadata included (model.Block.__eq__ compares __dict__).            *)
(***************************************************************************)
EXTENDS Integers, Sequences, FiniteSets
Classes == {"String", "Preamble", "ExplicitComment", "ImplicitComment"}
TextAttr(cls) == IF cls \in {"String", "Preamble"} THEN "value" ELSE "comment"
HasAttr(cls, attr) == attr = TextAttr(cls) \/ (cls = "String" /\ attr = "key")
New(cls, key, a, line, raw) == [cls |-> cls, key |-> IF cls = "String" THEN key ELSE "", a |-> a, line |-> line, raw |-> raw, meta |-> <<>>]
\* meta as a sequence of <<k, v>> with unique keys in insertion order; equality of dicts ignores the order
MetaGet(m, k) == IF \E i \in DOMAIN m : m[i][1] = k THEN (CHOOSE x \in {m[i] : i \in DOMAIN m} : x[1] = k)[2] ELSE "<None>"
MetaSet(m, k, v) == IF \E i \in DOMAIN m : m[i][1] = k THEN [i \in DOMAIN m |-> IF m[i][1] = k THEN <<k, v>> ELSE m[i]]
                    ELSE Append(m, <<k, v>>)
MetaEq(m1, m2) == {m1[i] : i \in DOMAIN m1} = {m2[i] : i \in DOMAIN m2}
Eq(x, y) == /\ x.cls = y.cls /\ x.key = y.key /\ x.a = y.a /\ x.line = y.line /\ x.raw = y.raw /\ MetaEq(x.meta, y.meta)
\* operations on a heap h (sequence of blocks); results [h, r]
DoNew(h, cls, key, a, line, raw) == [h |-> Append(h, New(cls, key, a, line, raw)), r |-> "ok"]
DoSet(h, i, attr, v) == IF attr = "key" THEN [h |-> [h EXCEPT ![i].key = v], r |-> "ok"] ELSE [h |-> [h EXCEPT ![i].a = v], r |-> "ok"]
DoSetMeta(h, i, k, v) == [h |-> [h EXCEPT ![i].meta = MetaSet(@, k, v)], r |-> "ok"]
DoGetMeta(h, i, k) == [h |-> h, r |-> MetaGet(h[i].meta, k)]
DoCopy(h, i) == [h |-> Append(h, h[i]), r |-> "ok"]
DoEq(h, i, j) == [h |-> h, r |-> IF Eq(h[i], h[j]) THEN "true" ELSE "false"]
Step(h, e) == CASE e.op = "new" -> DoNew(h, e.cls, e.key, e.a, e.line, e.raw)
                [] e.op = "set" -> DoSet(h, e.i, e.attr, e.v)
                [] e.op = "setmeta" -> DoSetMeta(h, e.i, e.k, e.v)
                [] e.op = "getmeta" -> DoGetMeta(h, e.i, e.k)
                [] e.op = "copy" -> DoCopy(h, e.i)
                [] e.op = "eq" -> DoEq(h, e.i, e.j)
=============================================================================
