----------------------------- MODULE MC_Splitter -----------------------------
(* Bounded-exhaustive exploration of the splitter: from every prefix of the   *)
(* prefix library (one shortest way into every control state, and the same    *)
(* after a complete block), all suffixes over the 16-symbol alphabet up to    *)
(* MaxSuffix steps.  Every explored input is exported with the blocks the     *)
(* specification assigns to it (T2).                                          *)
EXTENDS SplitterAlphabet, Json
CONSTANTS MaxSuffix, PrefixSel      \* PrefixSel: set of indices into PrefixLib
VARIABLES toks, s, n
vars == <<toks, s, n>>

PrefixLib == <<
  <<>>,
  <<"ATE","LB">>, <<"ATE","LB","W1">>, <<"ATE","LB","W1","CM">>, <<"ATE","LB","W1","CM","W2">>,
  <<"ATE","LB","W1","CM","W2","EQ">>, <<"ATE","LB","W1","CM","W2","EQ","LB">>,
  <<"ATE","LB","W1","CM","W2","EQ","LB","LB">>, <<"ATE","LB","W1","CM","W2","EQ","QT">>,
  <<"ATE","LB","W1","CM","W2","EQ","W1">>, <<"ATE","LB","W1","CM","W2","EQ","LB","W1","RB">>,
  <<"ATE","LB","W1","CM","W2","EQ","QT","W1","QT">>, <<"ATE","LB","W1","CM","W2","EQ","W1","CM","W2","EQ">>,
  <<"ATS","LB">>, <<"ATS","LB","W1">>, <<"ATS","LB","W1","EQ">>, <<"ATS","LB","W1","EQ","LB">>,
  <<"ATS","LB","W1","EQ","QT">>,
  <<"ATC","LB">>, <<"ATC","LB","LB">>, <<"ATP","LB">>, <<"ATP","LB","QT">>,
  <<"W1","NL">>, <<"ATE","LB","W1","RB","NL">>, <<"ATE","LB","W1","RB">>,
  <<"ATE","LB","W1","CM","W2","EQ","W1","RB","NL","ATE","LB","W1","CM">>,
  <<"ATS","LB","W1","EQ","W2","RB","NL","ATE","LB","W2","CM","W1","EQ">>,
  <<"ATC","LB","W1","RB","NL","W2","NL">>, <<"ATE","LB","W1","CM","W2","EQ","W1","NL">>,
  <<"ATE","LB","W1","CM","NL","W2","EQ","LB","NL">>,
  <<"ATE","LB","W1","CM","EQ","W1","CM">>, <<"ATS","LB","EQ">>, <<"ATE","LB","CM">>
>>

Init == \E p \in PrefixSel :
          /\ toks = Of(PrefixLib[p])
          /\ s = RunFrom(Of(PrefixLib[p]), NoFe, Init0, 1)
          /\ n = 0
Next == /\ n < MaxSuffix
        /\ \E a \in Alphabet :
             /\ OkNext(toks, a)
             /\ LET t2 == toks \o Add(a)
                IN /\ toks' = t2
                   /\ s' = RunFrom(t2, NoFe, s, Len(toks) + 1)
                   /\ n' = n + 1
                   /\ PrintT(ToJson([w |-> [i \in DOMAIN t2 |-> t2[i].w], out |-> Finish(t2, NoFe, s'), g |-> Recognise(t2).ok]))

Out == Finish(toks, NoFe, s)
InvNoInternalError == s.ctl # "ERR"
InvTiling      == Tiling(toks, Out)
InvLines       == Lines(toks, Out)
InvFieldLines  == FieldLines(toks, Out)
InvFailedCarry == FailedCarry(toks, Out)
InvShapes      == Shapes(toks, Out)
InvIncremental == Run(toks, NoFe) = Out                       \* incremental exploration = one run over the whole input
\* C02 on the model: on every input of the dialect the scanner yields exactly the grammar's blocks, none failed
InvGrammar == LET g == Recognise(toks) IN g.ok => g.blocks = Out /\ \A x \in DOMAIN Out : ~IsFailed(Out[x])
\* C04 lemma 1: a closed block is never revised
PrefixStable == [][IsPrefix(s.out, s'.out)]_vars
\* C04 lemma 2: an @type token resynchronises the scanner whatever came before
Core(x) == <<x.ctl, x.bk, x.d, x.q, x.from, x.line0, x.lb>>
Resync == [][(Len(toks') >= 2 /\ IsAT(toks'[Len(toks') - 1].k)) =>
               Core(s') = Core(Step(toks', NoFe, Step(toks', NoFe, [Init0 EXCEPT !.line = s.line], Len(toks') - 1), Len(toks')))]_vars
=============================================================================
