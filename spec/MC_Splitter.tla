----------------------------- MODULE MC_Splitter -----------------------------
(* Bounded-exhaustive exploration of the splitter: from every prefix of the   *)
(* prefix library (one shortest way into every control state, and the same    *)
(* after a complete block), all suffixes over the 16-symbol alphabet up to    *)
(* MaxSuffix steps.  Every explored input is exported with the blocks the     *)
(* specification assigns to it (T2).                                          *)
EXTENDS BibGrammar, Json
CONSTANTS MaxSuffix, PrefixSel      \* PrefixSel: set of indices into PrefixLib
VARIABLES toks, s, n
vars == <<toks, s, n>>

\* abstract alphabet: name -> token.  w identifies the exact text (W1/W2 two different words, WB a lone
\* backslash, WA an "@word" that is not followed by "{")
T == [ATE |-> [k |-> "ATE", w |-> 10], ATC |-> [k |-> "ATC", w |-> 11], ATP |-> [k |-> "ATP", w |-> 12],
      ATS |-> [k |-> "ATS", w |-> 13], LB |-> [k |-> "LB", w |-> 1], RB |-> [k |-> "RB", w |-> 2],
      QT |-> [k |-> "QT", w |-> 3], CM |-> [k |-> "CM", w |-> 4], EQ |-> [k |-> "EQ", w |-> 5],
      NL |-> [k |-> "NL", w |-> 6], SP |-> [k |-> "SP", w |-> 7], ESC |-> [k |-> "ESC", w |-> 8],
      HASH |-> [k |-> "H", w |-> 9], W1 |-> [k |-> "W", w |-> 21], W2 |-> [k |-> "W", w |-> 22], WB |-> [k |-> "W", w |-> 23], WA |-> [k |-> "W", w |-> 24]]
Alphabet == DOMAIN T
Of(names) == [i \in DOMAIN names |-> T[names[i]]]

PrefixLib == <<
  <<>>,
  <<"ATE","LB">>, <<"ATE","LB","W1">>, <<"ATE","LB","W1","CM">>, <<"ATE","LB","W1","CM","W2">>,
  <<"ATE","LB","W1","CM","W2","EQ">>, <<"ATE","LB","W1","CM","W2","EQ","LB">>,
  <<"ATE","LB","W1","CM","W2","EQ","LB","LB">>, <<"ATE","LB","W1","CM","W2","EQ","QT">>,
  <<"ATE","LB","W1","CM","W2","EQ","W1">>, <<"ATE","LB","W1","CM","W2","EQ","LB","W1","RB">>,
  <<"ATE","LB","W1","CM","W2","EQ","QT","W1","QT">>, <<"ATE","LB","W1","CM","W2","EQ","W1","CM","W2","EQ">>,
  <<"ATS","LB">>, <<"ATS","LB","W1">>, <<"ATS","LB","W1","EQ">>, <<"ATS","LB","W1","EQ","LB">>,
  <<"ATS","LB","W1","EQ","QT">>,
  <<"ATC","LB">>, <<"ATC","LB","LB">>, <<"ATP","LB">>, <<"ATP","LB","QT">>,
  <<"W1","NL">>, <<"ATE","LB","W1","RB","NL">>, <<"ATE","LB","W1","RB">>,
  <<"ATE","LB","W1","CM","W2","EQ","W1","RB","NL","ATE","LB","W1","CM">>,
  <<"ATS","LB","W1","EQ","W2","RB","NL","ATE","LB","W2","CM","W1","EQ">>,
  <<"ATC","LB","W1","RB","NL","W2","NL">>, <<"ATE","LB","W1","CM","W2","EQ","W1","NL">>,
  <<"ATE","LB","W1","CM","NL","W2","EQ","LB","NL">>,
  <<"ATE","LB","W1","CM","EQ","W1","CM">>, <<"ATS","LB","EQ">>, <<"ATE","LB","CM">>
>>
WClass == {"W1", "W2", "WA", "WB", "HASH"}

Init == \E p \in PrefixSel :
          /\ toks = Of(PrefixLib[p])
          /\ s = RunFrom(Of(PrefixLib[p]), NoFe, Init0, 1)
          /\ n = 0
Next == /\ n < MaxSuffix
        /\ \E a \in Alphabet :
             \* adjacent plain-text tokens would lex as one token; a lone backslash is generated before a newline only
             /\ ~(Len(toks) > 0 /\ toks[Len(toks)].k \in {"W", "H"} /\ a \in WClass)
             /\ ~(Len(toks) > 0 /\ toks[Len(toks)].k = "SP" /\ a = "SP")
             /\ ~(Len(toks) > 0 /\ toks[Len(toks)].w = 23 /\ a # "NL")
             /\ ~(Len(toks) > 0 /\ toks[Len(toks)].w = 24 /\ a \in {"LB", "SP"})
             /\ LET add == IF IsAT(T[a].k) THEN <<T[a], T["LB"]>> ELSE <<T[a]>>
                    t2 == toks \o add
                IN /\ toks' = t2
                   /\ s' = RunFrom(t2, NoFe, s, Len(toks) + 1)
                   /\ n' = n + 1
                   /\ PrintT(ToJson([w |-> [i \in DOMAIN t2 |-> t2[i].w], out |-> Finish(t2, NoFe, s'), g |-> Recognise(t2).ok]))

Out == Finish(toks, NoFe, s)
InvNoInternalError == s.ctl # "ERR"
InvTiling      == Tiling(toks, Out)
InvLines       == Lines(toks, Out)
InvFieldLines  == FieldLines(toks, Out)
InvFailedCarry == FailedCarry(toks, Out)
InvShapes      == Shapes(toks, Out)
InvIncremental == Run(toks, NoFe) = Out                       \* incremental exploration = one run over the whole input
\* C02 on the model: on every input of the dialect the scanner yields exactly the grammar's blocks, none failed
InvGrammar == LET g == Recognise(toks) IN g.ok => g.blocks = Out /\ \A x \in DOMAIN Out : ~IsFailed(Out[x])
\* C04 lemma 1: a closed block is never revised
PrefixStable == [][IsPrefix(s.out, s'.out)]_vars
\* C04 lemma 2: an @type token resynchronises the scanner whatever came before
Core(x) == <<x.ctl, x.bk, x.d, x.q, x.from, x.line0, x.lb>>
Resync == [][(Len(toks') >= 2 /\ IsAT(toks'[Len(toks') - 1].k)) =>
               Core(s') = Core(Step(toks', NoFe, Step(toks', NoFe, [Init0 EXCEPT !.line = s.line], Len(toks') - 1), Len(toks')))]_vars
=============================================================================
