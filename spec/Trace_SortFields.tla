-------------------------- MODULE Trace_SortFields --------------------------
(* T3: entries of up to 30 fields and random orders recorded through the     *)
(* three real middlewares; TLC recomputes the unique result and evaluates    *)
(* the declarative clauses on the recorded input.                            *)
EXTENDS SortFields, Json, IOUtils
Trace == JsonDeserialize(IOEnv.TRACE_FILE)
VARIABLES tid
N == Len(Trace)
Init == tid = 1
Pairs(kv) == [i \in DOMAIN kv |-> <<kv[i][1], kv[i][2]>>]
Next ==
    \/ /\ tid <= N
       /\ LET c == Trace[tid]
              valid == c.op.m # "custom" \/ CtorOK(c.op.order, c.op.cs)
              want == IF valid THEN Apply(c.op, c.fs) ELSE <<>>
              bad == IF c.ctor # valid THEN "order_validation"
                     ELSE IF ~valid THEN ""
                     ELSE IF c.raised THEN "raised"
                     ELSE IF Pairs(c.out) # KV(want) THEN
                            (IF Len(c.out) # Len(want) \/ {c.out[i][2] : i \in DOMAIN c.out} # {want[i].v : i \in DOMAIN want}
                             THEN "fields_lost_or_duplicated" ELSE "order")
                     ELSE IF ~Holds(c.op, c.fs, want) THEN "declarative"
                     ELSE IF ~c.idem THEN "idempotent"
                     ELSE IF ~c.others THEN "others_untouched"
                     ELSE ""
          IN IF bad = "" THEN TRUE
             ELSE PrintT(ToJson([reject |-> c.id, at |-> 1, clause |-> bad, expected |-> [ctor |-> valid, out |-> KV(want)]]))
       /\ tid' = tid + 1
    \/ /\ tid = N + 1
       /\ PrintT(ToJson([done |-> N]))
       /\ tid' = N + 2
=============================================================================
