----------------------------- MODULE MC_Library -----------------------------
(* Complete reachable graph of Library over a small universe with colliding  *)
(* keys; every edge is exported for replay into library.Library (T2).        *)
EXTENDS Library, Json
CONSTANTS MaxLen,      \* bound on Len(blocks)
          Objs,        \* ids of the universe objects in play
          ListPool,    \* ids of the objects used in list arguments
          WithDev      \* TRUE: also take the deviation actions (cfg that is EXPECTED to violate RaiseKeeps)
VARIABLES st, out
vars == <<st, out>>

O(id, kind, key, eqc) == [id |-> id, kind |-> kind, key |-> key, eqc |-> eqc]
AllObjs == {
  O("E1a", "entry", "k1", "E1x"), O("E1b", "entry", "k1", "E1b"),
  O("E1c", "entry", "k1", "E1x"),                       \* distinct object structurally equal to E1a
  O("E2", "entry", "k2", "E2"),
  O("S1a", "string", "k1", "S1a"), O("S1b", "string", "k1", "S1b"),   \* same key as the entries: crosses the two indexes
  O("P", "preamble", "", "P"), O("C", "icomment", "", "C"), O("F", "failed", "", "F") }
Universe == {o \in AllObjs : o.id \in Objs}
Pool == {o \in Universe : o.id \in ListPool}
Lists == {<<a, b>> : a \in Pool, b \in Pool}
WrapperPos(s) == {[pos |-> i] : i \in {j \in DOMAIN s.blocks : IsWrapper(s.blocks[j])}}

Ops(s) ==
       [op : {"add"}, bs : {<<b>> : b \in Universe}, single : {TRUE}, fail : BOOLEAN]
  \cup [op : {"add"}, bs : Lists, single : {FALSE}, fail : BOOLEAN]
  \cup [op : {"remove"}, as : {<<a>> : a \in Universe \cup WrapperPos(s)}, single : {TRUE}]
  \cup [op : {"remove"}, as : Lists, single : {FALSE}]
  \cup [op : {"replace"}, old : Universe \cup WrapperPos(s), new : Universe, fail : BOOLEAN]

Apply(s, o) ==
    CASE o.op = "add"     -> Add(s, o.bs, o.fail)
      [] o.op = "remove"  -> Remove(s, o.as)
      [] o.op = "replace" -> Replace(s, o.old, o.new, o.fail)
Dev(s, o) ==
    CASE o.op = "add"     -> AddDev(s, o.bs, o.fail)
      [] o.op = "remove"  -> RemoveDev(s, o.as)
      [] o.op = "replace" -> Replace(s, o.old, o.new, o.fail)

DOp(o) == CASE o.op = "add" -> [op |-> "add", bs |-> DescSeq(o.bs), single |-> o.single, fail |-> o.fail]
            [] o.op = "remove" -> [op |-> "remove", as |-> [i \in DOMAIN o.as |-> DescArg(o.as[i])], single |-> o.single]
            [] o.op = "replace" -> [op |-> "replace", old |-> DescArg(o.old), new |-> o.new.id, fail |-> o.fail]

Init == st = Empty /\ out = "ok"
Next == \E o \in Ops(st) :
          LET r == Apply(st, o)
              d == Dev(st, o)
          IN /\ Len(r.st.blocks) <= MaxLen
             /\ \/ st' = r.st /\ out' = r.out
                \/ WithDev /\ d # r /\ st' = d.st /\ out' = d.out
             /\ PrintT(ToJson([s |-> DescSeq(st.blocks), i |-> DOp(o), t |-> DViews(r.st), r |-> r.out,
                               dev |-> IF d = r THEN <<>> ELSE <<[t |-> DViews(d.st), r |-> d.out]>>]))

InvConsistent == Consistent(st)
\* a call that raises ValueError leaves the library equal to what it was
RaiseKeeps == [][out' = "ValueError" => AbsSt(st') = AbsSt(st)]_vars
=============================================================================
