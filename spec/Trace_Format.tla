----------------------------- MODULE Trace_Format -----------------------------
(* T3: histories of assignments and reads recorded from real BibtexFormat    *)
(* objects (also copies of them), validated event by event against Format.   *)
EXTENDS Format, Json, IOUtils, TLC
Trace == JsonDeserialize(IOEnv.TRACE_FILE)
VARIABLES tid, l, f
N == Len(Trace)
Init == tid = 1 /\ l = 1 /\ f = Default
NextCase == tid' = tid + 1 /\ l' = 1 /\ f' = Default
\* event: [a, v, ok, st]   st = the five attributes read after the event
View(g) == [indent |-> g.indent, value_column |-> g.vc, block_separator |-> g.sep, trailing_comma |-> g.tc, parsing_failed_comment |-> g.pfc]
Next ==
    \/ /\ tid <= N
       /\ IF l <= Len(Trace[tid].ev)
          THEN LET e == Trace[tid].ev[l]
                   r == Set(f, e.a, e.v)
                   bad == IF r.ok # e.ok THEN "validation"
                          ELSE IF View(r.f) # e.st THEN (IF r.ok THEN "read_back" ELSE "rejected_assignment_changed_state")
                          ELSE ""
               IN IF bad = "" THEN tid' = tid /\ l' = l + 1 /\ f' = r.f
                  ELSE /\ PrintT(ToJson([reject |-> Trace[tid].id, at |-> l, clause |-> bad, expected |-> [ok |-> r.ok, st |-> View(r.f)]]))
                       /\ NextCase
          ELSE NextCase
    \/ /\ tid = N + 1
       /\ PrintT(ToJson([done |-> N]))
       /\ tid' = N + 2 /\ UNCHANGED <<l, f>>
=============================================================================
