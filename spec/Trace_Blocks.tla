----------------------------- MODULE Trace_Blocks -----------------------------
(* T3: histories recorded from real String / Preamble / comment objects:     *)
(* every event carries the operation, its result and the projected heap.     *)
EXTENDS Blocks, Json, IOUtils, TLC
Trace == JsonDeserialize(IOEnv.TRACE_FILE)
VARIABLES tid, l, h
N == Len(Trace)
Init == tid = 1 /\ l = 1 /\ h = <<>>
NextCase == tid' = tid + 1 /\ l' = 1 /\ h' = <<>>
\* recorded heap: sequence of [cls, key, a, line, raw, meta (sequence of <<k, v>>)]
SameHeap(g, rec) == /\ Len(g) = Len(rec)
                    /\ \A i \in DOMAIN g : /\ g[i].cls = rec[i].cls /\ g[i].key = rec[i].key /\ g[i].a = rec[i].a
                                           /\ g[i].line = rec[i].line /\ g[i].raw = rec[i].raw
                                           /\ MetaEq(g[i].meta, rec[i].meta)
Next ==
    \/ /\ tid <= N
       /\ IF l <= Len(Trace[tid].ev)
          THEN LET e == Trace[tid].ev[l]
                   s == Step(h, e)
                   bad == IF s.r # e.r THEN "result" ELSE IF ~SameHeap(s.h, e.h) THEN "heap" ELSE ""
               IN IF bad = "" THEN tid' = tid /\ l' = l + 1 /\ h' = s.h
                  ELSE /\ PrintT(ToJson([reject |-> Trace[tid].id, at |-> l, clause |-> bad, expected |-> [r |-> s.r]]))
                       /\ NextCase
          ELSE NextCase
    \/ /\ tid = N + 1
       /\ PrintT(ToJson([done |-> N]))
       /\ tid' = N + 2 /\ UNCHANGED <<l, h>>
=============================================================================
