------------------------------ MODULE Interpolate ------------------------------
(* Default parsing after the scanner (C11, C05): ResolveStringReferences on the  *)
(* library, then RemoveEnclosing on every live entry and string.                 *)
(*                                                                               *)
(* A field value is REPLACED iff its text is not enclosed ({...} or "...") and   *)
(* equals, case-sensitively, the key of a live @string (the FIRST definition,    *)
(* by Library); it then holds that string's source value.  Afterwards one        *)
(* enclosing layer is stripped from every field of every live entry and from     *)
(* every live string.  Blocks that are not live (duplicate wrappers, failed      *)
(* blocks) are left as the scanner produced them.                                *)
EXTENDS BibLibrary

\* lexical enclosing test / strip on a token range (Enclosing!Strip on ranges)
Enclosed(toks, r) == /\ r[2] - r[1] >= 2
                     /\ \/ toks[r[1]].k = "LB" /\ toks[r[2] - 1].k = "RB"
                        \/ toks[r[1]].k = "QT" /\ toks[r[2] - 1].k = "QT"
StripR(toks, r) == IF Enclosed(toks, r) THEN <<r[1] + 1, r[2] - 1>> ELSE r
\* _value_is_nonstring_or_enclosed: starts and ends with the same delimiter kind (also a lone one)
LooksEnclosed(toks, r) == /\ r[2] > r[1]
                          /\ \/ toks[r[1]].k = "LB" /\ toks[r[2] - 1].k = "RB"
                             \/ toks[r[1]].k = "QT" /\ toks[r[2] - 1].k = "QT"

\* the library after default parsing, described per source position
Parsed(toks, out) ==
    LET st == LibOf(toks, out)
        liveS == [k \in DOMAIN st.sidx |-> st.sidx[k].id]                 \* key text -> position of the live string
        IsLive(x) == ~L!IsWrapper(st.blocks[x]) /\ out[x].t \in {"entry", "string"}
    IN [x \in DOMAIN out |->
          IF ~IsLive(x) THEN [live |-> FALSE]
          ELSE IF out[x].t = "string" THEN [live |-> TRUE, t |-> "string", val |-> StripR(toks, out[x].val)]
          ELSE [live |-> TRUE, t |-> "entry",
                fields |-> [f \in DOMAIN out[x].fields |->
                    LET r == out[x].fields[f].val
                        hit == ~LooksEnclosed(toks, r) /\ r[2] > r[1] /\ Sig(toks, r) \in DOMAIN liveS
                    IN [resolved |-> hit,
                        val |-> StripR(toks, IF hit THEN out[liveS[Sig(toks, r)]].val ELSE r)]]]]

\* ---- the statement of C11 on the model ---------------------------------------
\* a bare identifier: one plain word
Bare(toks, r) == r[2] = r[1] + 1 /\ toks[r[1]].k = "W"
FirstString(toks, out, key) ==      \* position of the first @string block whose key text is `key` (0 if none)
    LET c == {y \in DOMAIN out : out[y].t = "string" /\ Sig(toks, out[y].key) = key} IN
    IF c = {} THEN 0 ELSE CHOOSE y \in c : \A z \in c : y <= z
ResolvedExactly(toks, out) ==
    LET p == Parsed(toks, out) IN
    \A x \in DOMAIN out : p[x].live /\ out[x].t = "entry" =>
        \A f \in DOMAIN out[x].fields :
            LET r == out[x].fields[f].val
                s == IF Bare(toks, r) THEN FirstString(toks, out, Sig(toks, r)) ELSE 0
            IN IF s # 0 THEN p[x].fields[f].resolved /\ p[x].fields[f].val = StripR(toks, out[s].val)
               ELSE \* enclosed, concatenation, number or undefined name: keeps its own content
                    Bare(toks, r) \/ Enclosed(toks, r) \/ r[2] - r[1] > 1 =>
                        ~p[x].fields[f].resolved /\ p[x].fields[f].val = StripR(toks, r)
=============================================================================
