----------------------------- MODULE SortBlocks -----------------------------
(***************************************************************************)
(* SortBlocksByTypeAndKeyMiddleware (C16).                                  *)
(*                                                                          *)
(* A block is [id, kind, kr]: identity tag, kind (Library.tla's kinds plus  *)
(* "mwerror"), and kr = rank of its key in Python's string order (0 = no    *)
(* key / empty key; ranks are computed by the harness).  `order` is a       *)
(* sequence of kinds; unlisted kinds rank last.                             *)
(*                                                                          *)
(* Operational: grouping of comment runs with the following block, stable   *)
(* sort of groups (or of blocks) by (type rank, key).  Declarative: SortOK, *)
(* a relation between input and output that does not constrain where a      *)
(* trailing comment run goes (the statement is silent about it).            *)
(***************************************************************************)
EXTENDS Naturals, Sequences, FiniteSets, TLC

Comments == {"icomment", "ecomment"}
IsComment(b) == b.kind \in Comments
TRank(kind, order) == IF \E i \in DOMAIN order : order[i] = kind
                      THEN CHOOSE i \in DOMAIN order : order[i] = kind /\ \A j \in DOMAIN order : order[j] = kind => i <= j
                      ELSE Len(order) + 1
MaxKr == 1000
SortKey(kind, kr, order) == TRank(kind, order) * (MaxKr + 1) + kr

RECURSIVE InsertP(_, _)
InsertP(s, x) == IF s = <<>> THEN <<x>>
                 ELSE IF Head(s)[1] <= x[1] THEN <<Head(s)>> \o InsertP(Tail(s), x)
                 ELSE <<x>> \o s
RECURSIVE SortP(_)
SortP(s) == IF s = <<>> THEN <<>> ELSE InsertP(SortP(SubSeq(s, 1, Len(s) - 1)), s[Len(s)])
StableSort(keyed) == LET r == SortP(keyed) IN [i \in DOMAIN r |-> r[i][2]]

\* _block_junks: a junk is closed by every non-comment block; a trailing run of comments forms a last junk
RECURSIVE Junks(_, _, _)
Junks(bs, cur, acc) ==
    IF bs = <<>> THEN (IF cur = <<>> THEN acc ELSE Append(acc, cur))
    ELSE IF IsComment(Head(bs)) THEN Junks(Tail(bs), Append(cur, Head(bs)), acc)
    ELSE Junks(Tail(bs), <<>>, Append(acc, Append(cur, Head(bs))))
RECURSIVE Flatten(_)
Flatten(js) == IF js = <<>> THEN <<>> ELSE Head(js) \o Flatten(Tail(js))
\* sort_key of a junk: key of the last block in it that has one (comments have none) -> its main block's
JunkKey(j, order) == LET m == j[Len(j)] IN SortKey(m.kind, IF IsComment(m) THEN 0 ELSE m.kr, order)

Sort(bs, order, keep) ==
    IF keep THEN LET js == Junks(bs, <<>>, <<>>)
                 IN Flatten(StableSort([i \in DOMAIN js |-> <<JunkKey(js[i], order), js[i]>>]))
    ELSE StableSort([i \in DOMAIN bs |-> <<SortKey(bs[i].kind, bs[i].kr, order), bs[i]>>])

\* ---- declarative -------------------------------------------------------------
Pos(s, id) == CHOOSE i \in DOMAIN s : s[i].id = id
IsPerm(in, out) == /\ Len(in) = Len(out)
                   /\ \A i \in DOMAIN in : \E j \in DOMAIN out : out[j] = in[i]
                   /\ \A i, j \in DOMAIN out : out[i].id = out[j].id => i = j
Before(a, b, in, order) ==   \* a must precede b
    \/ SortKey(a.kind, a.kr, order) < SortKey(b.kind, b.kr, order)
    \/ SortKey(a.kind, a.kr, order) = SortKey(b.kind, b.kr, order) /\ Pos(in, a.id) < Pos(in, b.id)
\* length of the maximal comment run directly above input position p
RECURSIVE RunAbove(_, _)
RunAbove(in, p) == IF p > 1 /\ IsComment(in[p - 1]) THEN 1 + RunAbove(in, p - 1) ELSE 0

SortOK(in, out, order, keep) ==
    /\ IsPerm(in, out)
    /\ IF ~keep
       THEN \A i, j \in DOMAIN out : i < j => Before(out[i], out[j], in, order)
       ELSE /\ \A i, j \in DOMAIN out : i < j /\ ~IsComment(out[i]) /\ ~IsComment(out[j]) => Before(out[i], out[j], in, order)
            /\ \A p \in DOMAIN in : ~IsComment(in[p]) =>
                  LET n == RunAbove(in, p)
                      P == Pos(out, in[p].id)
                  IN /\ P > n
                     /\ \A d \in 1..n : out[P - d] = in[p - d]
\* the ids of the distinct blocks must be unique in the input for the relation to make sense
WellFormed(in) == \A i, j \in DOMAIN in : in[i].id = in[j].id => i = j
Ids(s) == [i \in DOMAIN s |-> s[i].id]
=============================================================================
