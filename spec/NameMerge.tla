------------------------------- MODULE NameMerge -------------------------------
(* NameParts.merge_last_name_first and the inverse law of C14 on one person:      *)
(*     parse(merge(parse(name))) = parse(name)      (as word texts, part by part) *)
(* for every valid name with a non-empty last part.  Words are token sub-         *)
(* sequences of the name; merging joins words with one blank and the sections     *)
(* "von Last", "Jr", "First" (the non-empty ones) with ", ".                      *)
EXTENDS NameParse

WordText(s, w) == SubSeq(s, w.r[1], w.r[2] - 1)
PartTexts(s, part) == [i \in DOMAIN part |-> WordText(s, part[i])]
Texts(s, p) == [first |-> PartTexts(s, p.first), von |-> PartTexts(s, p.von), last |-> PartTexts(s, p.last), jr |-> PartTexts(s, p.jr)]
RECURSIVE JoinWith(_, _)
JoinWith(ws, sep) == IF ws = <<>> THEN <<>> ELSE IF Len(ws) = 1 THEN ws[1] ELSE ws[1] \o sep \o JoinWith(Tail(ws), sep)
\* texts: record of sequences of word token sequences
MergeLastFirst(t) ==
    LET vonlast == JoinWith(t.von \o t.last, <<"W">>)
        jr == JoinWith(t.jr, <<"W">>)
        first == JoinWith(t.first, <<"W">>)
        secs == SelectSeq(<<vonlast, jr, first>>, LAMBDA x : x # <<>>)
    IN JoinWith(secs, <<"C", "W">>)
MergeFirstFirst(t) == JoinWith(SelectSeq(<<JoinWith(t.first, <<"W">>), JoinWith(t.von, <<"W">>), JoinWith(t.last, <<"W">>), JoinWith(t.jr, <<"W">>)>>,
                                         LAMBDA x : x # <<>>), <<"W">>)
InDomain(s) == LET r == Parse(s) IN r.err = "" /\ r.parts.last # <<>>
InverseOK(s) ==
    LET r == Parse(s) IN
    InDomain(s) =>
        LET t == Texts(s, r.parts)
            m == MergeLastFirst(t)
            r2 == Parse(m)
        IN r2.err = "" /\ Texts(m, r2.parts) = t
=============================================================================
