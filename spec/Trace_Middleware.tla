---------------------------- MODULE Trace_Middleware ----------------------------
(* T3 for C07: one event per application of a shipped middleware (or of           *)
(* write_string) to a library obtained by parsing.  The harness records           *)
(*   mw        class name                   inplace   the constructor flag        *)
(*   types     value types present before the call:                               *)
(*               name  - in author/editor/translator fields of live entries       *)
(*               other - in the other fields, str_values - of @string blocks      *)
(*   raised    whether the call raised      changed   input projection differs    *)
(*   shared    number of mutable objects reachable from both input and output     *)
(*   bad_template  (write_string only) the format's warning template is one that  *)
(*             str.format rejects: the call may raise, but must leave the format  *)
(*             and the library as they were                                        *)
(* The accepting action for a copy-mode application is Middleware!BlockCopy /     *)
(* LibCopy / Sort: nothing shared, input frozen; an exception is admitted only    *)
(* where the value TYPE-STATE of the pipeline makes the middleware inapplicable   *)
(* (and even then the input must be frozen).                                      *)
EXTENDS Naturals, Sequences, FiniteSets, TLC, Json, IOUtils, Functions, SequencesExt
Trace == JsonDeserialize(IOEnv.TRACE_FILE)
VARIABLES tid
N == Len(Trace)
Init == tid = 1
Set(s) == {s[i] : i \in DOMAIN s}
\* value type-state: str --SeparateCoAuthors--> liststr --SplitNameParts--> listnp --MergeNameParts--> liststr --MergeCoAuthors--> str
Inapplicable(mw, ty) ==
    CASE mw = "RemoveEnclosingMiddleware" -> (Set(ty.name) \cup Set(ty.other) \cup Set(ty.str_values)) \ {"str"} # {}
      [] mw = "SeparateCoAuthors" -> Set(ty.name) \ {"str"} # {}
      [] mw = "SplitNameParts"    -> Set(ty.name) \ {"liststr"} # {}
      [] mw = "MergeNameParts"    -> Set(ty.name) \ {"listnp"} # {}
      [] mw = "MergeCoAuthors"    -> "listnp" \in Set(ty.name)
      [] mw = "write_string"      -> FALSE
      [] OTHER -> FALSE
\* The metadata protocol (spec growth, informational: no listed property states it).  A middleware records what it did
\* under its own key of the block's parser_metadata and touches no other key; AddEnclosingMiddleware is the one
\* exception by design: it CONSUMES the record RemoveEnclosingMiddleware left ("removed_enclosing") and writes none.
\* meta_touched = keys whose value differs between a block of the input and the corresponding block of the result.
MayTouch(mw) ==
    CASE mw = "RemoveEnclosingMiddleware" -> {"removed_enclosing"}
      [] mw = "AddEnclosingMiddleware" -> {"removed_enclosing"}
      [] mw = "ResolveStringReferencesMiddleware" -> {"ResolveStringReferences"}
      [] mw \in {"MonthIntMiddleware", "MonthAbbreviationMiddleware", "MonthLongStringMiddleware", "NormalizeFieldKeys"} -> {mw}
      [] mw = "SortFieldsAlphabeticallyMiddleware" -> {"sorted_fields_alphabetically"}
      [] mw = "SortFieldsCustomMiddleware" -> {"sorted_fields_custom"}
      [] mw = "SeparateCoAuthors" -> {"separate_coauthors"}
      [] mw = "SplitNameParts" -> {"split_name_parts"}
      [] mw = "MergeNameParts" -> {"merge_name_parts"}
      [] mw = "MergeCoAuthors" -> {"merge_coauthors"}
      [] mw = "LatexEncodingMiddleware" -> {"latex_encoding"}
      [] mw = "LatexDecodingMiddleware" -> {"latex_decoding"}
      [] OTHER -> {}
ProtocolOK(e) == "meta_touched" \notin DOMAIN e \/ Set(e.meta_touched) \subseteq MayTouch(e.mw)
CopyMode(e) == ~e.inplace \/ e.mw \in {"SortBlocksByTypeAndKeyMiddleware", "write_string"}
Bad(e) ==
    IF ~CopyMode(e) THEN ""                                   \* nothing is demanded of in-place mode
    ELSE IF e.changed THEN "input_changed"
    ELSE IF e.mw = "write_string" /\ ~e.fmt_unchanged THEN "format_changed"          \* also when the call raises
    ELSE IF e.raised THEN (IF Inapplicable(e.mw, e.types) \/ e.bad_template THEN "" ELSE "raised")
    ELSE IF e.shared > 0 THEN "aliasing"
    ELSE IF e.mw = "write_string" /\ ~e.same_text_twice THEN "write_twice_differs"
    ELSE ""
Next ==
    \/ /\ tid <= N
       /\ LET e == Trace[tid] bad == Bad(e) IN
          IF bad = "" THEN (IF ProtocolOK(e) THEN TRUE
                            ELSE PrintT(ToJson([reject |-> e.id, at |-> 1, clause |-> "note:metadata_protocol",
                                                expected |-> [may_touch |-> MayTouch(e.mw)]])))
          ELSE PrintT(ToJson([reject |-> e.id, at |-> 1, clause |-> bad,
                              expected |-> [shared |-> 0, changed |-> FALSE, raised |-> Inapplicable(e.mw, e.types)]]))
       /\ tid' = tid + 1
    \/ /\ tid = N + 1
       \* `functional` (whole-trace clause): a middleware (class + options = its table row `name`) applied to equal
       \* libraries gives equal results, whichever object did it and whatever that object did before.  One fold over
       \* the trace builds the map (name, input digest) -> result digest; an event that disagrees with the first one
       \* recorded for its key is rejected.
       /\ LET keyed == SelectSeq(Trace, LAMBDA e : "in_digest" \in DOMAIN e)
              Key(e) == <<e.name, e.in_digest>>
              firsts == FoldLeft(LAMBDA acc, e : IF Key(e) \in DOMAIN acc THEN acc ELSE (Key(e) :> e.out_digest) @@ acc,
                                 <<>>, keyed)
              bad == SelectSeq(keyed, LAMBDA e : firsts[Key(e)] # e.out_digest)
          IN \A i \in DOMAIN bad :
               PrintT(ToJson([reject |-> bad[i].id, at |-> 1, clause |-> "functional",
                              expected |-> [same_result_as_first_event_with_this_middleware_and_input |-> firsts[Key(bad[i])]]]))
       /\ PrintT(ToJson([done |-> N]))
       /\ tid' = N + 2
=============================================================================
