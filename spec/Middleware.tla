------------------------------- MODULE Middleware -------------------------------
(***************************************************************************)
(* Copy-mode vs in-place middleware at heap level (C07).                    *)
(*                                                                          *)
(* The heap maps object identities to [kind, refs, ver]:                    *)
(*   lib -> blocklist -> block* -> (fieldlist -> field* -> value) , meta    *)
(* `refs` is the sequence of referenced identities, `ver` a version counter *)
(* bumped by every in-place mutation.  Immutable values (str, int) are not  *)
(* heap objects: sharing them is harmless and not modelled.                 *)
(*                                                                          *)
(* Actions (one per way a shipped middleware treats its input):             *)
(*   BlockCopy     BlockMiddleware, allow_inplace_modification=False:       *)
(*                 deepcopy of each block, transformation of the copy,      *)
(*                 Library(new list)                 (middleware.py:121)    *)
(*   BlockInplace  the same without the deepcopy                            *)
(*   LibCopy       LibraryMiddleware copy mode: deepcopy(library)           *)
(*   LibInplace    LibraryMiddleware in place                               *)
(*   Sort          the block sorter: deepcopy(library.blocks), new Library  *)
(*   Write         default unparse stack (BlockCopy) + read-only writer     *)
(* Deviation (never in Next of the ideal spec): ShallowBlockCopy copies the *)
(* block object but shares its field list - the kind of slip C07 forbids.   *)
(***************************************************************************)
EXTENDS Naturals, Sequences, FiniteSets, TLC

Range(s) == {s[i] : i \in DOMAIN s}
RECURSIVE ReachFrom(_, _, _)
ReachFrom(heap, todo, seen) ==
    IF todo = {} THEN seen
    ELSE LET x == CHOOSE y \in todo : TRUE
             new == Range(heap[x].refs) \ (seen \cup {x})
         IN ReachFrom(heap, (todo \ {x}) \cup new, seen \cup {x})
Reach(heap, root) == ReachFrom(heap, {root}, {})
Fresh(heap) == IF DOMAIN heap = {} THEN 1 ELSE (CHOOSE m \in DOMAIN heap : \A y \in DOMAIN heap : y <= m) + 1
Ext(heap, id, obj) == [x \in DOMAIN heap \cup {id} |-> IF x = id THEN obj ELSE heap[x]]

\* deep copy of everything reachable from root: fresh identities, same shape. Returns [heap, map]
RECURSIVE CopyAll(_, _, _)
CopyAll(heap, ids, map) ==       \* allocate a fresh id for every id in `ids`
    IF ids = {} THEN [heap |-> heap, map |-> map]
    ELSE LET x == CHOOSE y \in ids : \A z \in ids : y <= z
             f == Fresh(heap)
         IN CopyAll(Ext(heap, f, heap[x]), ids \ {x}, [k \in DOMAIN map \cup {x} |-> IF k = x THEN f ELSE map[k]])
DeepCopy(heap, root) ==
    LET r == Reach(heap, root)
        c == CopyAll(heap, r, <<>>)
        h2 == [x \in DOMAIN c.heap |->
                 IF x \in {c.map[k] : k \in r}
                 THEN [c.heap[x] EXCEPT !.refs = [i \in DOMAIN @ |-> c.map[@[i]]]]
                 ELSE c.heap[x]]
    IN [heap |-> h2, root |-> c.map[root], map |-> c.map]

Bump(heap, x) == [heap EXCEPT ![x].ver = @ + 1]
\* what a transformation does to a block it owns: bump the block's metadata and the first value object below it (if any)
Targets(heap, b) == {x \in Reach(heap, b) : heap[x].kind \in {"meta", "value", "field"}}
RECURSIVE BumpAll(_, _)
BumpAll(heap, xs) == IF xs = {} THEN heap ELSE LET x == CHOOSE y \in xs : TRUE IN BumpAll(Bump(heap, x), xs \ {x})
TransformBlock(heap, b) == BumpAll(heap, Targets(heap, b))

NewLib(heap, blocks) ==     \* Library(blocks=...): a new library object with a new list
    LET l == Fresh(heap)
        h1 == Ext(heap, l, [kind |-> "blocklist", refs |-> blocks, ver |-> 0])
        L == Fresh(h1)
    IN [heap |-> Ext(h1, L, [kind |-> "lib", refs |-> <<l>>, ver |-> 0]), root |-> L]
Blocks(heap, lib) == heap[heap[lib].refs[1]].refs

RECURSIVE CopyBlocks(_, _, _)
CopyBlocks(heap, bs, acc) ==
    IF bs = <<>> THEN [heap |-> heap, bs |-> acc]
    ELSE LET c == DeepCopy(heap, Head(bs)) IN CopyBlocks(TransformBlock(c.heap, c.root), Tail(bs), Append(acc, c.root))
BlockCopy(heap, lib) == LET c == CopyBlocks(heap, Blocks(heap, lib), <<>>) IN NewLib(c.heap, c.bs)

RECURSIVE TransformAll(_, _)
TransformAll(heap, bs) == IF bs = <<>> THEN heap ELSE TransformAll(TransformBlock(heap, Head(bs)), Tail(bs))
BlockInplace(heap, lib) == NewLib(TransformAll(heap, Blocks(heap, lib)), Blocks(heap, lib))

LibCopy(heap, lib) == LET c == DeepCopy(heap, lib) IN [heap |-> TransformAll(c.heap, Blocks(c.heap, c.root)), root |-> c.root]
LibInplace(heap, lib) == [heap |-> TransformAll(heap, Blocks(heap, lib)), root |-> lib]
Sort(heap, lib) == LET c == DeepCopy(heap, heap[lib].refs[1])         \* deepcopy(library.blocks)
                       bs == heap[c.root].refs                          \* (re-ordering is SortBlocks.tla's subject)
                   IN NewLib(c.heap, c.heap[c.root].refs)
\* DEVIATION: a copy of the block object that shares everything below it
RECURSIVE ShallowBlocks(_, _, _)
ShallowBlocks(heap, bs, acc) ==
    IF bs = <<>> THEN [heap |-> heap, bs |-> acc]
    ELSE LET f == Fresh(heap) h == Ext(heap, f, heap[Head(bs)])
         IN ShallowBlocks(TransformBlock(h, f), Tail(bs), Append(acc, f))
ShallowBlockCopy(heap, lib) == LET c == ShallowBlocks(heap, Blocks(heap, lib), <<>>) IN NewLib(c.heap, c.bs)

\* ---- the statement of C07 --------------------------------------------------------
Snapshot(heap, root) == [x \in Reach(heap, root) |-> heap[x]]
NoAlias(heap, in, out) == Reach(heap, in) \cap Reach(heap, out) = {}
InputFrozen(heap, in, snap) == Snapshot(heap, in) = snap
=============================================================================
