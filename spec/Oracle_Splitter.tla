--------------------------- MODULE Oracle_Splitter ---------------------------
(* T3 for the splitter.  A case is an input abstracted to tokens by the        *)
(* harness (kinds k, text ids w), the observed ends of failed blocks (fe:      *)
(* pairs <<from, to>>), and the block structure observed from the real code    *)
(* projected on token ranges (obs).  TLC                                       *)
(*   1. runs BibSplitter!Run on the tokens (with fe resolving the one freedom  *)
(*      the specification leaves) and prints the blocks it assigns;            *)
(*   2. evaluates the declarative clauses of C03 on the OBSERVED ranges        *)
(*      (Tiling, Lines) - the same predicates T1 proves for the specification; *)
(*   3. on request (c.g) runs the grammar recogniser BibGrammar!Recognise and   *)
(*      reports whether the input is in the dialect and whether the grammar's   *)
(*      blocks equal the scanner's (C02 on this input);                         *)
(*   4. on request (c.lib) folds Library!AddLoop over the blocks (BibLibrary)   *)
(*      and prints what sits at every position of the parsed library (C09), and *)
(*      what default parsing (resolve references, strip one enclosing layer)    *)
(*      leaves in every live entry and string (Interpolate!Parsed; C11, C05).   *)
EXTENDS Interpolate, Json, IOUtils
Trace == JsonDeserialize(IOEnv.TRACE_FILE)
VARIABLES tid
N == Len(Trace)
Init == tid = 1
Toks(c) == [i \in DOMAIN c.k |-> [k |-> c.k[i], w |-> c.w[i]]]
Fe(c) == [f \in {c.fe[i][1] : i \in DOMAIN c.fe} |-> (CHOOSE i \in DOMAIN c.fe : c.fe[i][1] = f) ]
FeMap(c) == [f \in {c.fe[i][1] : i \in DOMAIN c.fe} |-> c.fe[CHOOSE i \in DOMAIN c.fe : c.fe[i][1] = f][2]]
ObsOK(toks, obs) ==
    IF ~Tiling(toks, obs) THEN "tiling" ELSE IF ~Lines(toks, obs) THEN "start_line" ELSE ""
Next ==
    \/ /\ tid <= N
       /\ LET c == Trace[tid]
              toks == Toks(c)
              out == Run(toks, FeMap(c))
          IN PrintT(ToJson([id |-> c.id, out |-> out,
                            lib |-> IF c.lib THEN LibDesc(toks, out) ELSE <<>>,
                            libok |-> IF c.lib THEN DupOK(toks, out) /\ ResolvedExactly(toks, out) ELSE TRUE,
                            parsed |-> IF c.lib THEN Parsed(toks, out) ELSE <<>>,
                            rec |-> IF c.g THEN LET r == Recognise(toks) IN [ok |-> r.ok, same |-> r.blocks = out]
                                    ELSE [ok |-> FALSE, same |-> FALSE],
                            obs |-> IF c.judge THEN ObsOK(toks, c.obs) ELSE "",
                            spec |-> IF Tiling(toks, out) /\ Lines(toks, out) /\ FieldLines(toks, out)
                                        /\ FailedCarry(toks, out) /\ Shapes(toks, out) THEN "" ELSE "spec-invariant"]))
       /\ tid' = tid + 1
    \/ /\ tid = N + 1
       /\ PrintT(ToJson([done |-> N]))
       /\ tid' = N + 2
=============================================================================
