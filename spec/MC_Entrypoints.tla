----------------------------- MODULE MC_Entrypoints -----------------------------
EXTENDS Entrypoints, Json, SequencesExt
CONSTANTS MaxStack
VARIABLES c, done
PM == {"P1", "P2", "L1", "MI", "RE", "DR"}
UM == {"P1", "P2", "L1", "AE", "RE", "DR"}
RECURSIVE Seqs(_, _)
Seqs(S, n) == IF n = 0 THEN {<<>>} ELSE LET p == Seqs(S, n - 1) IN p \cup {Append(s, m) : s \in {x \in p : Len(x) = n - 1}, m \in S}
Containers == {"list", "tuple", "iter"}
ParseCfgs == [side : {"parse"}, ps : {None} \cup Seqs(PM, MaxStack), app : {None}, ct : Containers]
        \cup [side : {"parse"}, ps : {None}, app : Seqs(PM, MaxStack), ct : Containers]
        \cup [side : {"parse"}, ps : Seqs(PM, 1), app : Seqs(PM, 1), ct : {"list"}]
WriteCfgs == [side : {"write"}, ps : {None} \cup Seqs(UM, MaxStack), app : {None}, ct : Containers]
        \cup [side : {"write"}, ps : {None}, app : Seqs(UM, MaxStack), ct : Containers]
        \cup [side : {"write"}, ps : Seqs(UM, 1), app : Seqs(UM, 1), ct : {"list"}]
Kinds == {"reused_list", "none", "empty_list", "empty_tuple", "same", "other", "list2", "tuple2", "list3", "generator", "int", "str",
          "list_with_nonblock", "dict_of_str", "object"}
Typs == {"entry", "string", "preamble", "ecomment", "icomment"}
SpliceLib == <<[id |-> "c0", typ |-> "icomment"], [id |-> "e1", typ |-> "entry"], [id |-> "s1", typ |-> "string"],
               [id |-> "p1", typ |-> "preamble"], [id |-> "f1", typ |-> "failed"], [id |-> "c1", typ |-> "ecomment"],
               [id |-> "e2", typ |-> "entry"]>>
Policy(t, k) == [y \in Typs \cup {"failed"} |-> IF y = t THEN k ELSE IF y = "failed" THEN "pass" ELSE "same"]
\* level "method": the middleware overrides transform_<type>; level "block": it overrides transform_block itself and so
\* also decides about failed blocks (which no transform_<type> method receives)
SpliceCfgs == [side : {"splice"}, typ : Typs, kind : Kinds, level : {"method", "block"}]
         \cup [side : {"splice"}, typ : {"failed"}, kind : Kinds, level : {"block"}]
Result(x) == CASE x.side = "parse" -> ParseString(x.ps, x.app)
               [] x.side = "write" -> WriteString([layers |-> 0, log |-> <<>>, mint |-> FALSE, live |-> TRUE], x.ps, x.app)
               [] x.side = "splice" -> SpliceAll(SpliceLib, Policy(x.typ, x.kind), <<>>)
Init == c = [side |-> "init"] /\ done = FALSE
Next == /\ ~done /\ done' = TRUE
        /\ c' \in ParseCfgs \cup WriteCfgs \cup SpliceCfgs
        /\ PrintT(ToJson([c |-> c', r |-> Result(c'),
                          stack |-> IF c'.side = "write" THEN BuildUnparseStack(c'.ps, c'.app).stack
                                    ELSE IF c'.side = "parse" THEN BuildParseStack(c'.ps, c'.app).stack ELSE <<>>,
                          applicable |-> IF c'.side = "parse" THEN Applicable(BuildParseStack(c'.ps, c'.app).stack) ELSE TRUE]))
\* application order: the log of probes is the sub-sequence of probes of the effective stack, and each probe saw the
\* layers left by everything before it
InvOrder == c.side \in {"parse", "write"} /\ ~Result(c).err =>
              LET st == IF c.side = "parse" THEN BuildParseStack(c.ps, c.app).stack ELSE BuildUnparseStack(c.ps, c.app).stack
                  lg == Result(c).e.log
                  dr == SelectInSeq(st, LAMBDA m : m = "DR")       \* 0 if none
                  seen == IF dr = 0 THEN st ELSE SubSeq(st, 1, dr - 1)
                  probes == SelectSeq(seen, LAMBDA m : m \in {"P1", "P2", "P3", "L1"})
              IN /\ [i \in DOMAIN lg |-> lg[i][1]] = probes
                 /\ Result(c).e.live = (dr = 0)
                 /\ (c.side = "write" /\ dr # 0 => Result(c).text = "")
\* a library handed in is transformed as a whole: the earlier entry's log equals the new entry's in probe names
InvInto == c.side = "parse" /\ ~Result(c).err =>
              LET a == Result(c).e.log  b == Result(c).pre.log IN
              /\ Len(a) = Len(b) /\ \A i \in DOMAIN a : a[i][1] = b[i][1]
              /\ Result(c).pre.mint = Result(c).e.mint
InvBoth == c.side \in {"parse", "write"} => (Result(c).err <=> (c.ps # None /\ c.app # None))
=============================================================================
