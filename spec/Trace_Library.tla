--------------------------- MODULE Trace_Library ---------------------------
(* Trace validation (T3) for library.Library.  A case is a history of calls  *)
(* recorded from the real object with the projection of all eight views      *)
(* after every call.  Each event must be explained by the IDEAL action of    *)
(* Library.tla; an event explained only by a named DEVIATION action is       *)
(* accepted but reported ({"deviation": ...}); anything else rejects the     *)
(* history at that event.  Consistent(st) is evaluated after every step.     *)
EXTENDS Library, Json, IOUtils
Trace == JsonDeserialize(IOEnv.TRACE_FILE)
VARIABLES tid, l, st
N == Len(Trace)
Init == tid = 1 /\ l = 1 /\ st = Empty
NextCase == tid' = tid + 1 /\ l' = 1 /\ st' = Empty

Ideal(s, e) == CASE e.op = "add"     -> Add(s, e.bs, e.fail)
                 [] e.op = "remove"  -> Remove(s, e.as)
                 [] e.op = "replace" -> Replace(s, e.old, e.new, e.fail)
Deviant(s, e) == CASE e.op = "add"    -> [name |-> "AddRaiseAfterInsert", r |-> AddDev(s, e.bs, e.fail)]
                   [] e.op = "remove" -> [name |-> "RemovePartial", r |-> RemoveDev(s, e.as)]
                   [] OTHER           -> [name |-> "", r |-> Ideal(s, e)]

PairsToFn(ps) == [k \in {ps[i][1] : i \in DOMAIN ps} |-> (CHOOSE i \in DOMAIN ps : ps[i][1] = k) ]
FnEq(f, ps) == /\ DOMAIN f = {ps[i][1] : i \in DOMAIN ps}
               /\ \A i \in DOMAIN ps : f[ps[i][1]] = ps[i][2]
               /\ \A i, j \in DOMAIN ps : ps[i][1] = ps[j][1] => i = j
\* first clause of the property that the observation contradicts ("" = none)
Bad(r, e) ==
    LET v == DViews(r.st) IN
    IF r.out # e.out THEN "outcome"
    \* an event after which the caller did not look at the library (no view was read): only the outcome is recorded; the
    \* state moves on in the model and the next observed event is compared with it (a view computed lazily must not depend on
    \* WHEN it was last looked at)
    ELSE IF "quiet" \in DOMAIN e /\ e.quiet THEN ""
    ELSE IF v.blocks # e.v.blocks THEN "blocks"
    ELSE IF v.entries # e.v.entries THEN "entries"
    ELSE IF ~FnEq(v.entries_dict, e.v.entries_dict) THEN "entries_dict"
    ELSE IF ~FnEq(v.strings_dict, e.v.strings_dict) THEN "strings_dict"
    ELSE IF v.strings # Range(e.v.strings) \/ Cardinality(v.strings) # Len(e.v.strings) THEN "strings"
    ELSE IF v.preambles # e.v.preambles THEN "preambles"
    ELSE IF v.comments # e.v.comments THEN "comments"
    ELSE IF v.failed_blocks # e.v.failed_blocks THEN "failed_blocks"
    ELSE IF ~Consistent(r.st) THEN "consistent"
    ELSE ""

Next ==
    \/ /\ tid <= N
       /\ IF l <= Len(Trace[tid].ev)
          THEN LET c == Trace[tid]
                   e == c.ev[l]
                   r == Ideal(st, e)
                   d == Deviant(st, e)
                   bad == Bad(r, e)
               IN IF bad = "" THEN tid' = tid /\ l' = l + 1 /\ st' = r.st
                  ELSE IF d.name # "" /\ Bad(d.r, e) = ""
                  THEN /\ PrintT(ToJson([deviation |-> d.name, id |-> c.id, at |-> l, clause |-> bad]))
                       /\ tid' = tid /\ l' = l + 1 /\ st' = d.r.st
                  ELSE /\ PrintT(ToJson([reject |-> c.id, at |-> l, clause |-> bad,
                                         expected |-> [out |-> r.out, v |-> DViews(r.st)]]))
                       /\ NextCase
          ELSE NextCase
    \/ /\ tid = N + 1
       /\ PrintT(ToJson([done |-> N]))
       /\ tid' = N + 2 /\ UNCHANGED <<l, st>>
=============================================================================
