------------------------------ MODULE MC_Middleware ------------------------------
(* All stacks of up to MaxStack middleware applications (by kind) on a library of  *)
(* two blocks: an entry with two fields (one holding a mutable list value) and a   *)
(* string block, both with metadata.                                               *)
EXTENDS Middleware
CONSTANTS MaxStack, WithDev
VARIABLES heap, cur, hist
vars == <<heap, cur, hist>>
O(k, r) == [kind |-> k, refs |-> r, ver |-> 0]
Heap0 == << O("value", <<>>),            \* 1  list value of field 1
            O("field", <<1>>),           \* 2
            O("field", <<>>),            \* 3  field with an immutable value
            O("fieldlist", <<2, 3>>),    \* 4
            O("meta", <<>>),             \* 5
            O("block", <<4, 5>>),        \* 6  entry
            O("meta", <<>>),             \* 7
            O("block", <<7>>),           \* 8  string
            O("blocklist", <<6, 8>>),    \* 9
            O("lib", <<9>>) >>           \* 10
In0 == 10
Snap0 == Snapshot(Heap0, In0)
CopyKinds == {"BlockCopy", "LibCopy", "Sort", "Write"}
Apply(k, h, l) == CASE k = "BlockCopy" -> BlockCopy(h, l) [] k = "Write" -> BlockCopy(h, l)
                    [] k = "BlockInplace" -> BlockInplace(h, l) [] k = "LibCopy" -> LibCopy(h, l)
                    [] k = "LibInplace" -> LibInplace(h, l) [] k = "Sort" -> Sort(h, l)
                    [] k = "ShallowBlockCopy" -> ShallowBlockCopy(h, l)
Kinds == {"BlockCopy", "BlockInplace", "LibCopy", "LibInplace", "Sort", "Write"} \cup (IF WithDev THEN {"ShallowBlockCopy"} ELSE {})
Init == heap = Heap0 /\ cur = In0 /\ hist = <<>>
Next == /\ Len(hist) < MaxStack
        /\ \E k \in Kinds : LET r == Apply(k, heap, cur) IN heap' = r.heap /\ cur' = r.root /\ hist' = Append(hist, k)
\* a stack whose FIRST application is copy-mode never touches the input, whatever follows; a stack of copy-mode
\* applications only never shares anything with its input
FirstCopy == hist # <<>> /\ hist[1] \in CopyKinds \cup {"ShallowBlockCopy"}
AllCopy == hist # <<>> /\ \A i \in DOMAIN hist : hist[i] \in CopyKinds \cup {"ShallowBlockCopy"}
InvInputFrozen == FirstCopy => InputFrozen(heap, In0, Snap0)
InvNoAlias == FirstCopy => NoAlias(heap, In0, cur)
\* each single copy-mode application shares nothing between its own input and output
StepNoAlias == [][hist'[Len(hist')] \in CopyKinds \cup {"ShallowBlockCopy"} => NoAlias(heap', cur, cur')]_vars
=============================================================================
