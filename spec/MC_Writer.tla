------------------------------- MODULE MC_Writer -------------------------------
(* Libraries x formats: (A) every single entry with 0..3 fields whose keys have  *)
(* lengths in {1,4,9,15} x every format; (B) every library of <= MaxBlocks       *)
(* blocks over 10 block templates x a reduced format set.                        *)
EXTENDS Writer, Json
CONSTANTS MaxBlocks, Part       \* Part: "A" or "B"
VARIABLES lib, fmt, done
KeyOf(n) == SubSeq("abcdefghijklmnopqrstuvwxyz", 1, n)
Fld(n, v) == [k |-> KeyOf(n), v |-> v]
Ent(type, key, fs, live) == [t |-> "entry", type |-> type, key |-> key, fields |-> fs, live |-> live]
Lens == {1, 4, 9, 15}
FieldSeqs == {<<>>} \cup {<<Fld(a, "{v1}")>> : a \in Lens} \cup {<<Fld(a, "{v1}"), Fld(b, "12")>> : a \in Lens, b \in Lens}
             \cup {<<Fld(a, "{v1}"), Fld(b, "12"), Fld(c, "\"x\nY\"")>> : a \in Lens, b \in Lens, c \in Lens}
Templates == <<
  Ent("article", "k1", <<Fld(1, "{v}")>>, TRUE),
  Ent("book", "key2", <<Fld(9, "{a}"), Fld(15, "2")>>, TRUE),
  Ent("misc", "k3", <<>>, TRUE),
  Ent("article", "k4", <<Fld(4, "{x}"), Fld(4, "{y}"), Fld(4, "{z}")>>, TRUE),
  [t |-> "string", key |-> "s1", val |-> "\"str\""],
  [t |-> "preamble", val |-> " \"pre\" "],
  [t |-> "ecomment", text |-> "explicit c"],
  [t |-> "icomment", text |-> "% implicit\nsecond line"],
  [t |-> "failed", raw |-> "@bad{k, x = ", nl |-> 1],
  [t |-> "failed", raw |-> "@bad{k,\n a = {1}\n\n", nl |-> 3]
>>
\* keys made unique per position (a library never holds two live blocks with one key)
Reindex(l) == [i \in DOMAIN l |-> IF l[i].t \in {"entry", "string"} THEN [l[i] EXCEPT !.key = @ \o ToString(i)] ELSE l[i]]
RECURSIVE Libs(_)
Libs(n) == IF n = 0 THEN {<<>>} ELSE LET p == Libs(n - 1) IN p \cup {Append(l, Templates[i]) : l \in {x \in p : Len(x) = n - 1}, i \in 1..10}
Pfcs == {[pre |-> "% WARNING Parsing failed for the following ", post |-> " lines.", n |-> TRUE],
         [pre |-> "%% ", post |-> "", n |-> TRUE], [pre |-> "% no count", post |-> "", n |-> FALSE]}
FmtsA == [indent : {"", " ", "    ", "\t"}, vc : (0..16) \cup {40, -1}, sep : {"\n\n"}, tc : BOOLEAN, pfc : {CHOOSE p \in Pfcs : p.post = " lines."}]
FmtsB == [indent : {"", "\t"}, vc : {0, 7, -1}, sep : {"", "\n\n", "--\n"}, tc : BOOLEAN, pfc : Pfcs]

Init == /\ done = FALSE
        /\ IF Part = "A" THEN lib \in {<<Ent("article", "k", fs, TRUE)>> : fs \in FieldSeqs} /\ fmt \in FmtsA
           ELSE lib \in {Reindex(l) : l \in Libs(MaxBlocks)} /\ fmt \in FmtsB
Next == /\ ~done /\ done' = TRUE /\ UNCHANGED <<lib, fmt>>
        /\ PrintT(ToJson([lib |-> lib, fmt |-> fmt, out |-> Write(lib, fmt), fixed |-> Fixed(lib, fmt), col |-> Column(lib, fmt)]))
InvColumn == ColumnLaw(lib, fmt)
InvAuto   == AutoAligned(lib, fmt)
=============================================================================
