------------------------------ MODULE MC_AndSplit ------------------------------
EXTENDS AndSplit, Json
CONSTANTS MaxTok
VARIABLES toks, n
Macro == [X |-> <<"x">>, AND |-> <<"a", "n", "d">>, AN |-> <<"a", "n">>, D |-> <<"d">>, W |-> <<"w">>, LB |-> <<"{">>, RB |-> <<"}">>,
          ESCX |-> <<"b", "x">>, ESCA |-> <<"b", "a">>, ESCW |-> <<"b", "w">>]
RECURSIVE Expand(_)
Expand(t) == IF t = <<>> THEN <<>> ELSE Macro[Head(t)] \o Expand(Tail(t))
Chars == Expand(toks)
Init == toks = <<>> /\ n = 0
Next == /\ n < MaxTok
        /\ \E a \in DOMAIN Macro :
             /\ toks' = Append(toks, a) /\ n' = n + 1
             /\ LET c == Expand(Append(toks, a)) IN PrintT(ToJson([t |-> Append(toks, a), p |-> Split(c), bal |-> Balanced(Strip(c))]))
InvConservation == Conservation(Chars, Split(Chars))
InvIdempotent == Idempotent(Chars)
InvSeparatorRule == Balanced(Strip(Chars)) => Split(Chars) = RefPieces(Chars)
=============================================================================
