--------------------------- MODULE Trace_SortBlocks ---------------------------
(* The relation SortOK evaluated by TLC on pairs (input library, observed      *)
(* output) recorded from the real sorter; plus: blocks unaltered, input        *)
(* unchanged, no exception.                                                    *)
EXTENDS SortBlocks, Json, IOUtils
Trace == JsonDeserialize(IOEnv.TRACE_FILE)
VARIABLES tid
N == Len(Trace)
Init == tid = 1
ById(in, id) == in[Pos(in, id)]
Next ==
    \/ /\ tid <= N
       /\ LET c == Trace[tid]
              known == \A i \in DOMAIN c.out : \E j \in DOMAIN c.lib : c.lib[j].id = c.out[i]
              outb == [i \in DOMAIN c.out |-> ById(c.lib, c.out[i])]
              bad == IF c.raised THEN "raised"
                     ELSE IF ~known \/ ~IsPerm(c.lib, outb) THEN "permutation"
                     ELSE IF ~SortOK(c.lib, outb, c.order, c.keep) THEN
                            (IF SortOK(c.lib, outb, c.order, FALSE) \/ ~c.keep THEN "order" ELSE
                             IF \A i, j \in DOMAIN outb : i < j /\ ~IsComment(outb[i]) /\ ~IsComment(outb[j]) => Before(outb[i], outb[j], c.lib, c.order)
                             THEN "comments_attached" ELSE "order")
                     ELSE IF ~c.unaltered THEN "blocks_altered"
                     ELSE IF ~c.input_unchanged THEN "input_changed"
                     ELSE ""
          IN IF bad = "" THEN TRUE
             ELSE PrintT(ToJson([reject |-> c.id, at |-> 1, clause |-> bad,
                                 expected |-> [one_admissible_output |-> Ids(Sort(c.lib, c.order, c.keep))]]))
       /\ tid' = tid + 1
    \/ /\ tid = N + 1
       /\ PrintT(ToJson([done |-> N]))
       /\ tid' = N + 2
=============================================================================
