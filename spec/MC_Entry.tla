------------------------------ MODULE MC_Entry ------------------------------
(* Complete graph of the Entry mapping over a small key pool; every edge is  *)
(* exported for replay into model.Entry (T2).                                *)
EXTENDS Entry, Json
CONSTANTS Keys, Vals, Ety, Eid
VARIABLE fs

\* a value is the pair (text, start line) of the Field object: set_field hands in a Field WITH a line ("1", "2"),
\* item assignment builds a Field WITHOUT one ("1~", "2~") - the stored field must be exactly the one handed in
Ops == [op : {"set_field"}, k : Keys, v : Vals] \cup [op : {"setitem"}, k : Keys, v : {x \o "~" : x \in Vals}]
       \cup [op : {"pop", "delitem", "get", "contains"}, k : Keys, v : {"-"}]
       \cup [op : {"getitem"}, k : Keys \cup Reserved, v : {"-"}]
Renames == [op : {"rename"}, k : Keys, v : Keys \cup {"new"}]

\* all lists of fields with distinct keys
RECURSIVE Lists(_)
Lists(n) == IF n = 0 THEN {<<>>}
            ELSE LET prev == Lists(n - 1) IN
                 prev \cup {Append(l, [k |-> k, v |-> v]) : l \in {x \in prev : Len(x) = n - 1}, k \in Keys, v \in Vals}
DistinctLists == {l \in Lists(Cardinality(Keys)) : Distinct(l)}

Init == fs \in DistinctLists
Next == \E op \in Ops \cup {r \in Renames : RenameEnabled(fs, r)} :
          LET s == Step(fs, op, Ety, Eid) IN
          /\ fs' = s.fs
          /\ PrintT(ToJson([s |-> fs, i |-> op, t |-> s.fs, r |-> s.res,
                            d |-> ViewDict(s.fs), it |-> ViewItems(s.fs, Ety, Eid)]))

InvRefines == \A op \in Ops \cup {r \in Renames : RenameEnabled(fs, r)} : Refines(fs, op, Ety, Eid)
InvViews   == ViewsAgree(fs, Ety, Eid)
InvDistinct == Distinct(fs)
=============================================================================
