----------------------------- MODULE Trace_AndSplit -----------------------------
(* T3 for the co-author splitter: strings abstracted to character classes by the  *)
(* harness; TLC computes the pieces (operational) and, on brace-balanced input,   *)
(* the reference pieces, and checks conservation and idempotence on the model.    *)
EXTENDS AndSplit, Json, IOUtils
Trace == JsonDeserialize(IOEnv.TRACE_FILE)
VARIABLES tid
N == Len(Trace)
Init == tid = 1
Next ==
    \/ /\ tid <= N
       /\ LET c == Trace[tid]
              p == Split(c.s)
              bal == Balanced(Strip(c.s))
          IN PrintT(ToJson([id |-> c.id, p |-> p, bal |-> bal,
                            spec |-> IF ~Conservation(c.s, p) THEN "conservation"
                                     ELSE IF bal /\ p # RefPieces(c.s) THEN "separator_rule"
                                     ELSE IF ~Idempotent(c.s) THEN "idempotent" ELSE ""]))
       /\ tid' = tid + 1
    \/ /\ tid = N + 1
       /\ PrintT(ToJson([done |-> N]))
       /\ tid' = N + 2
=============================================================================
