-------------------------------- MODULE MC_Latex --------------------------------
EXTENDS Latex, Json
CONSTANTS MaxBlocks
VARIABLES lib, fail, done
Atoms == {"s1", "s2", "s3"}
NP1 == [first |-> <<"s1">>, von |-> <<>>, last |-> <<"s2", "s3">>, jr |-> <<>>]
NP2 == [first |-> <<>>, von |-> <<"s3">>, last |-> <<"s1">>, jr |-> <<"s2">>]
F(k, vt, v) == [k |-> k, vt |-> vt, v |-> v]
Blocks == {
  [t |-> "entry", fields |-> <<F("title", "str", "s1"), F("year", "int", 7)>>],
  [t |-> "entry", fields |-> <<F("title", "str", "s2"), F("note", "str", "s3"), F("author", "liststr", <<"s1", "s2">>)>>],
  [t |-> "entry", fields |-> <<F("author", "np", NP1), F("title", "str", "s3")>>],
  [t |-> "entry", fields |-> <<F("editor", "nplist", <<NP1, NP2>>), F("author", "np", NP2)>>],
  [t |-> "entry", fields |-> <<>>],
  [t |-> "string", v |-> "s1"], [t |-> "string", v |-> "s3"],
  [t |-> "other"] }
RECURSIVE Libs(_)
Libs(n) == IF n = 0 THEN {<<>>} ELSE LET p == Libs(n - 1) IN p \cup {Append(l, b) : l \in {x \in p : Len(x) = n - 1}, b \in Blocks}
Init == lib = <<>> /\ fail \in SUBSET Atoms /\ done = FALSE
Next == /\ ~done /\ done' = TRUE /\ fail' = fail /\ lib' \in Libs(MaxBlocks)
        /\ PrintT(ToJson([lib |-> lib', fail |-> fail, out |-> Transform(lib', fail)]))
InvScope == ScopeOK(lib, Transform(lib, fail))
InvContainment == ContainmentOK(lib, Transform(lib, fail), fail)
=============================================================================
