------------------------------- MODULE Pipeline -------------------------------
(* Entry points as compositions (C05, C20):                                     *)
(*   parse_string  = scanner ; parse stack (default: resolve references, strip)  *)
(*   write_string  = unparse stack (default: brace-enclose every value, on a     *)
(*                   copy) ; writer                                              *)
(* This module states the WRITE half on projected libraries (texts); the PARSE   *)
(* half is Interpolate!Parsed over tokens.                                       *)
EXTENDS Writer

\* default_unparse_stack: AddEnclosing(default "{", reuse FALSE, enclose_integers TRUE) on every entry field and string
EncloseDefault(lib) ==
    [x \in DOMAIN lib |->
        IF lib[x].t = "entry" THEN [lib[x] EXCEPT !.fields = [f \in DOMAIN @ |-> [k |-> @[f].k, v |-> "{" \o @[f].v \o "}"]]]
        ELSE IF lib[x].t = "string" THEN [lib[x] EXCEPT !.val = "{" \o @ \o "}"]
        ELSE lib[x]]
WriteString(lib, fmt) == Write(EncloseDefault(lib), fmt)
=============================================================================
