---------------------------- MODULE MC_SortBlocks ----------------------------
EXTENDS SortBlocks, Json
CONSTANTS MaxLen, UseAll, OrderSel   \* UseAll: all 326 orders; otherwise the set OrderSel of orders (sequences of kinds)
VARIABLES lib, cfgv, out
B(id, kind, kr) == [id |-> id, kind |-> kind, kr |-> kr]
\* keys: "" -> 0, "a" -> 1, "b" -> 2
Universe == { B("Eb", "entry", 2), B("Ea", "entry", 1), B("E0", "entry", 0),
              B("Sb", "string", 2), B("Sa", "string", 1),
              B("P", "preamble", 0), B("CI", "icomment", 0), B("CE", "ecomment", 0), B("CI2", "icomment", 0),
              B("F", "failed", 0), B("Wa", "dup", 1) }
RECURSIVE Seqs(_)
Seqs(n) == IF n = 0 THEN {<<>>}
           ELSE LET p == Seqs(n - 1) IN p \cup {Append(s, b) : s \in {x \in p : Len(x) = n - 1}, b \in Universe}
Libs == {s \in Seqs(MaxLen) : WellFormed(s)}
Kinds5 == {"string", "preamble", "entry", "icomment", "ecomment"}
RECURSIVE SubPerms(_)
SubPerms(n) == IF n = 0 THEN {<<>>}
               ELSE LET p == SubPerms(n - 1) IN p \cup {Append(s, k) : s \in {x \in p : Len(x) = n - 1}, k \in Kinds5}
AllOrders == {s \in SubPerms(5) : \A i, j \in DOMAIN s : s[i] = s[j] => i = j}
Orders == IF UseAll THEN AllOrders ELSE OrderSel

Init == lib \in Libs /\ cfgv = <<>> /\ out = <<>>
Next == /\ cfgv = <<>>
        /\ \E o \in Orders, keep \in BOOLEAN :
             /\ cfgv' = <<o, keep>> /\ lib' = lib
             /\ out' = Sort(lib, o, keep)
             /\ PrintT(ToJson([lib |-> lib, order |-> o, keep |-> keep, out |-> Ids(Sort(lib, o, keep))]))
InvSortOK == cfgv # <<>> => SortOK(lib, out, cfgv[1], cfgv[2])
=============================================================================
