------------------------------ MODULE MC_Blocks ------------------------------
(* T1: every history of <= MaxLen operations on a heap of <= MaxBlocks       *)
(* blocks over small pools.  Equality is an equivalence that is exactly      *)
(* content equality; a copy is equal and independent; an assignment changes  *)
(* one attribute of one block.                                               *)
EXTENDS Blocks, TLC
CONSTANTS MaxLen, MaxBlocks
VARIABLES h, n
vars == <<h, n>>
Texts == {"x", "y"}
Init == h = <<>> /\ n = 0
Ops == [op : {"new"}, cls : Classes, key : {"k"}, a : Texts, line : {0, 3}, raw : {"r"}]
Next == /\ n < MaxLen /\ n' = n + 1
        /\ \/ Len(h) < MaxBlocks /\ \E e \in Ops : h' = Step(h, e).h
           \/ \E i \in DOMAIN h, attr \in {"key", "value", "comment"}, v \in Texts :
                HasAttr(h[i].cls, attr) /\ h' = Step(h, [op |-> "set", i |-> i, attr |-> attr, v |-> v]).h
           \/ \E i \in DOMAIN h, k \in {"m1", "m2"}, v \in Texts : h' = Step(h, [op |-> "setmeta", i |-> i, k |-> k, v |-> v]).h
           \/ Len(h) < MaxBlocks /\ \E i \in DOMAIN h : h' = Step(h, [op |-> "copy", i |-> i]).h
InvEquivalence == \A i, j, k \in DOMAIN h : /\ Eq(h[i], h[i])
                                            /\ (Eq(h[i], h[j]) => Eq(h[j], h[i]))
                                            /\ (Eq(h[i], h[j]) /\ Eq(h[j], h[k]) => Eq(h[i], h[k]))
InvClassMatters == \A i, j \in DOMAIN h : h[i].cls # h[j].cls => ~Eq(h[i], h[j])
InvMetaUniqueKeys == \A i \in DOMAIN h : Cardinality({h[i].meta[x][1] : x \in DOMAIN h[i].meta}) = Len(h[i].meta)
\* one block changes per step, or one block is added; nothing else moves
Independent == [][\/ /\ Len(h') = Len(h) + 1 /\ SubSeq(h', 1, Len(h)) = h
                  \/ /\ Len(h') = Len(h) /\ Cardinality({i \in DOMAIN h : h'[i] # h[i]}) <= 1]_vars
CopyEqual == [][Len(h') = Len(h) + 1 /\ (\E i \in DOMAIN h : h'[Len(h')] = h[i]) => \E i \in DOMAIN h : Eq(h'[Len(h')], h'[i])]_vars
=============================================================================
