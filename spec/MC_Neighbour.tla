---------------------------- MODULE MC_Neighbour ----------------------------
(* C04 on the model: for every well-formed prefix D1 (ending in a complete    *)
(* block), every middle X (all token sequences up to MaxX steps, and every    *)
(* way of being in the middle of something: the X-prefix library) and every   *)
(* well-formed suffix D2 that starts with a block at a line start:            *)
(*     blocks(D1 X NL D2) starts with blocks(D1) and ends with blocks(D2)     *)
(* (the latter shifted by the tokens and lines in front of it).               *)
EXTENDS SplitterAlphabet, Json
CONSTANTS MaxX, D1Sel, D2Sel, XPrefSel
VARIABLES d1, x, s, n
vars == <<d1, x, s, n>>

E1 == <<"ATE","LB","W1","RB">>
E2 == <<"ATE","LB","W1","CM","W2","EQ","LB","W1","RB","RB">>
S1 == <<"ATS","LB","W1","EQ","QT","W2","QT","RB">>
C1 == <<"ATC","LB","W1","SP","W2","RB">>
P1 == <<"ATP","LB","QT","W1","QT","RB">>
E3 == <<"ATE","LB","W2","CM","NL","SP","W1","EQ","W1","CM","NL","RB">>
DPool == << <<>>, E1, E2, S1, C1, P1, E2 \o <<"NL">> \o S1, E3, <<"W1","NL">> \o E1, E1 \o <<"NL","W2","SP","EQ","NL">> \o E2 >>
\* every way of being in the middle of something
XPref == << <<>>, <<"ATE","LB">>, <<"ATE","LB","W1","CM">>, <<"ATE","LB","W1","CM","W2","EQ">>,
            <<"ATE","LB","W1","CM","W2","EQ","LB">>, <<"ATE","LB","W1","CM","W2","EQ","QT">>,
            <<"ATE","LB","W1","CM","W2","EQ","LB","LB","W1","RB">>,
            <<"ATS","LB","W1">>, <<"ATS","LB","W1","EQ","LB">>, <<"ATC","LB","LB">>, <<"ATP","LB">>,
            <<"ATE","LB","W1","CM","W2","EQ","W1","CM">>, <<"W1","SP","QT","LB">> >>

D1(i) == Of(DPool[i])
Whole(i, xx, j) == D1(i) \o xx \o <<T["NL"]>> \o Of(DPool[j])

\* shift a block of D2 parsed on its own to its place in the whole document
ShR(r, o) == <<r[1] + o, r[2] + o>>
Shift(b, o, l) ==
    LET base == [t |-> b.t, from |-> b.from + o, to |-> b.to + o, line |-> b.line + l] IN
    CASE b.t = "icomment" -> base
      [] b.t \in {"ecomment", "preamble"} -> base @@ [val |-> ShR(b.val, o)]
      [] b.t = "string" -> base @@ [key |-> ShR(b.key, o), val |-> ShR(b.val, o)]
      [] b.t \in {"entry", "dupfield"} ->
            base @@ [at |-> b.at + o, key |-> ShR(b.key, o),
                     fields |-> [f \in DOMAIN b.fields |-> [key |-> ShR(b.fields[f].key, o), val |-> ShR(b.fields[f].val, o),
                                                           line |-> b.fields[f].line + l]]]
      [] b.t = "failed" -> base @@ [lo |-> b.lo + o, hi |-> b.hi + o]

PrefixOK(i, xx, j) ==
    LET big == Run(Whole(i, xx, j), NoFe)
        a == Run(D1(i), NoFe)
    IN Len(big) >= Len(a) /\ SubSeq(big, 1, Len(a)) = a
SuffixOK(i, xx, j) ==
    LET w == Whole(i, xx, j)
        big == Run(w, NoFe)
        b == Run(Of(DPool[j]), NoFe)
        o == Len(D1(i)) + Len(xx) + 1
        l == CountNL(w, 1, o + 1)
    IN /\ Len(big) >= Len(b)
       /\ SubSeq(big, Len(big) - Len(b) + 1, Len(big)) = [y \in DOMAIN b |-> Shift(b[y], o, l)]

MinD1 == CHOOSE m \in D1Sel : \A k \in D1Sel : m <= k
Init == /\ d1 \in D1Sel
        /\ \E p \in XPrefSel : x = Of(XPref[p])
        /\ s = 0 /\ n = 0
Next == /\ n < MaxX
        /\ \E a \in Alphabet :
             /\ OkNext(x, a)
             /\ x' = x \o Add(a) /\ n' = n + 1 /\ UNCHANGED <<d1, s>>
             /\ IF d1 = MinD1 THEN PrintT(ToJson([w |-> [y \in DOMAIN x' |-> x'[y].w]])) ELSE TRUE   \* export each X once

\* D2 must be non-empty and start with a block; D1 must end in a complete block (or be empty)
InvPrefix == \A j \in D2Sel : PrefixOK(d1, x, j)
InvSuffix == \A j \in D2Sel : SuffixOK(d1, x, j)
=============================================================================
