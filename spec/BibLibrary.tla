------------------------------ MODULE BibLibrary ------------------------------
(* Composition: the library produced by parsing = Library!AddLoop folded over  *)
(* the blocks of the splitter (C09; also used by C05, C11).                    *)
EXTENDS BibGrammar
L == INSTANCE Library

KindOf(b) == CASE b.t = "entry" -> "entry" [] b.t = "string" -> "string" [] b.t = "dupfield" -> "dupfield"
               [] b.t = "failed" -> "failed" [] b.t = "preamble" -> "preamble" [] b.t = "ecomment" -> "ecomment"
               [] b.t = "icomment" -> "icomment"
\* the library object of source block x: identity = its position; the key is the key TEXT (case-sensitive)
ObjOf(toks, out, x) ==
    [id |-> x, kind |-> KindOf(out[x]), eqc |-> x,
     key |-> IF out[x].t \in {"entry", "string"} THEN Sig(toks, out[x].key) ELSE <<>>]
LibOf(toks, out) == L!AddLoop(L!Empty, [x \in DOMAIN out |-> ObjOf(toks, out, x)], FALSE).st

\* descriptor of what sits at each position: the source block itself, or a duplicate wrapper
PosDesc(b) == IF L!IsWrapper(b) THEN [w |-> TRUE, dup |-> b.dup, prev |-> b.prev] ELSE [w |-> FALSE, dup |-> b.id, prev |-> 0]
LibDesc(toks, out) ==
    LET st == LibOf(toks, out) IN
    [blocks |-> [x \in DOMAIN st.blocks |-> PosDesc(st.blocks[x])],
     live_entries |-> {st.eidx[k].id : k \in DOMAIN st.eidx},
     live_strings |-> {st.sidx[k].id : k \in DOMAIN st.sidx},
     failed |-> {x \in DOMAIN st.blocks : st.blocks[x].kind \in {"failed", "dupfield", "dup"}}]

\* ---- C09, stated on (source blocks, library) ------------------------------------
SameKey(toks, out, x, y) == out[x].t = out[y].t /\ Sig(toks, out[x].key) = Sig(toks, out[y].key)
Earlier(toks, out, x) == {y \in 1..(x - 1) : out[y].t = out[x].t /\ SameKey(toks, out, x, y)}
DupOK(toks, out) ==
    LET st == LibOf(toks, out) IN
    /\ Len(st.blocks) = Len(out)                                                       \* nothing merged or dropped
    /\ \A x \in DOMAIN out :
         IF out[x].t \in {"entry", "string"} /\ Earlier(toks, out, x) # {}
         THEN \* a later block with the same key: wrapped at its own position, pointing at the FIRST one
              /\ L!IsWrapper(st.blocks[x]) /\ st.blocks[x].dup = x /\ st.blocks[x].key = Sig(toks, out[x].key)
              /\ st.blocks[x].prev = CHOOSE y \in Earlier(toks, out, x) : \A z \in Earlier(toks, out, x) : y <= z
         ELSE ~L!IsWrapper(st.blocks[x]) /\ st.blocks[x].id = x
    /\ \A x \in DOMAIN out : out[x].t = "dupfield" =>                                  \* not registered as live
         x \notin {st.eidx[k].id : k \in DOMAIN st.eidx}
    /\ {st.eidx[k].id : k \in DOMAIN st.eidx} = {x \in DOMAIN out : out[x].t = "entry" /\ Earlier(toks, out, x) = {}}
    /\ {st.sidx[k].id : k \in DOMAIN st.sidx} = {x \in DOMAIN out : out[x].t = "string" /\ Earlier(toks, out, x) = {}}
    /\ L!Consistent(st)
=============================================================================
