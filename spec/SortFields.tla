----------------------------- MODULE SortFields -----------------------------
(***************************************************************************)
(* SortFieldsAlphabeticallyMiddleware, SortFieldsCustomMiddleware and       *)
(* NormalizeFieldKeys (C17).                                                *)
(*                                                                          *)
(* A field is [k, v, lk, r, lr]: key, value, lower-cased key, rank of k and *)
(* of lk in Python's string order (ranks are computed by the harness: TLC   *)
(* has no character-level string order).  An order entry is [k, lk].        *)
(*                                                                          *)
(* Operational side: stable insertion sort by the same sort keys as the     *)
(* code; last-wins dictionary for normalisation.  Declarative side: the     *)
(* clauses of the statement (permutation, listed first in listed order,     *)
(* ties stable, ...), from which the result is unique.                      *)
(***************************************************************************)
EXTENDS Naturals, Sequences, FiniteSets, TLC

\* ---- operational ------------------------------------------------------------
\* stable insertion sort of <<sort key, item>> pairs (first-order recursion only)
RECURSIVE InsertP(_, _)
InsertP(s, x) ==
    IF s = <<>> THEN <<x>>
    ELSE IF Head(s)[1] <= x[1] THEN <<Head(s)>> \o InsertP(Tail(s), x)     \* after every element with key <= key(x)
    ELSE <<x>> \o s
RECURSIVE SortP(_)
SortP(s) == IF s = <<>> THEN <<>> ELSE InsertP(SortP(SubSeq(s, 1, Len(s) - 1)), s[Len(s)])
SortBy(s, Key(_)) == LET r == SortP([i \in DOMAIN s |-> <<Key(s[i]), s[i]>>]) IN [i \in DOMAIN r |-> r[i][2]]

Alpha(fs) == SortBy(fs, LAMBDA f : f.r)

OrderKeys(order, cs) == [i \in DOMAIN order |-> IF cs THEN order[i].k ELSE order[i].lk]
CtorOK(order, cs) == \A i, j \in DOMAIN order : OrderKeys(order, cs)[i] = OrderKeys(order, cs)[j] => i = j
IndexIn(ks, x) == IF \E i \in DOMAIN ks : ks[i] = x THEN CHOOSE i \in DOMAIN ks : ks[i] = x /\ \A j \in DOMAIN ks : ks[j] = x => i <= j
                  ELSE Len(ks) + 1
Custom(fs, order, cs) ==
    LET ks == OrderKeys(order, cs) IN SortBy(fs, LAMBDA f : IndexIn(ks, IF cs THEN f.k ELSE f.lk))

RECURSIVE NormLoop(_, _)
\* dict keyed by lower-cased key: first occurrence fixes the position, last occurrence the field
NormLoop(fs, acc) ==
    IF fs = <<>> THEN acc
    ELSE LET f == Head(fs)
             g == [k |-> f.lk, v |-> f.v, lk |-> f.lk, r |-> f.lr, lr |-> f.lr]
             hit == {i \in DOMAIN acc : acc[i].k = f.lk}
         IN NormLoop(Tail(fs), IF hit = {} THEN Append(acc, g) ELSE [acc EXCEPT ![CHOOSE i \in hit : TRUE] = g])
Normalize(fs) == NormLoop(fs, <<>>)

\* ---- declarative --------------------------------------------------------------
\* every field carries its position in the input as f.v (the harness gives each field a distinct value = its
\* index), so "out is a rearrangement of fs" needs no search for the bijection
IsStablePermBy(fs, out, Key(_)) ==
    /\ Len(out) = Len(fs)
    /\ {out[i].v : i \in DOMAIN out} = DOMAIN fs
    /\ \A i \in DOMAIN out : out[i] = fs[out[i].v]
    /\ \A i, j \in DOMAIN out : i < j =>
          \/ Key(out[i]) < Key(out[j])
          \/ Key(out[i]) = Key(out[j]) /\ out[i].v < out[j].v
AlphaOK(fs, out) == IsStablePermBy(fs, out, LAMBDA f : f.r)
CustomOK(fs, out, order, cs) ==
    LET ks == OrderKeys(order, cs) IN IsStablePermBy(fs, out, LAMBDA f : IndexIn(ks, IF cs THEN f.k ELSE f.lk))
NormalizeOK(fs, out) ==
    LET lks == {fs[i].lk : i \in DOMAIN fs}
        first(x) == CHOOSE i \in DOMAIN fs : fs[i].lk = x /\ \A j \in DOMAIN fs : fs[j].lk = x => i <= j
        last(x)  == CHOOSE i \in DOMAIN fs : fs[i].lk = x /\ \A j \in DOMAIN fs : fs[j].lk = x => j <= i
    IN /\ Len(out) = Cardinality(lks)
       /\ \A i \in DOMAIN out : out[i].k = out[i].lk /\ out[i].k \in lks                \* lower-case
       /\ \A i, j \in DOMAIN out : out[i].k = out[j].k => i = j                         \* unique
       /\ \A i \in DOMAIN out : out[i].v = fs[last(out[i].k)].v                         \* value of the last occurrence
       /\ \A i, j \in DOMAIN out : i < j => first(out[i].k) < first(out[j].k)           \* order of first occurrences

\* one operator for all three: op = [m |-> "alpha"] | [m |-> "custom", order, cs] | [m |-> "normalize"]
Apply(op, fs) == CASE op.m = "alpha" -> Alpha(fs)
                   [] op.m = "custom" -> Custom(fs, op.order, op.cs)
                   [] op.m = "normalize" -> Normalize(fs)
Holds(op, fs, out) == CASE op.m = "alpha" -> AlphaOK(fs, out)
                        [] op.m = "custom" -> CustomOK(fs, out, op.order, op.cs)
                        [] op.m = "normalize" -> NormalizeOK(fs, out)
KV(fs) == [i \in DOMAIN fs |-> <<fs[i].k, fs[i].v>>]
=============================================================================
