------------------------------ MODULE MC_NameLenient ------------------------------
EXTENDS NameParseLenient, Json
CONSTANTS MaxLen
VARIABLES s, n
Alphabet == {"U", "L", "Z", "W", "T", "C", "{", "}", "EU", "EL", "EA"}
Init == s = <<>> /\ n = 0
Next == /\ n < MaxLen /\ n' = n + 1
        /\ \E a \in Alphabet : s' = Append(s, a)
        /\ PrintT(ToJson([s |-> s', r |-> LParse(s')]))
InvAgrees == AgreesWithStrict(s)
InvBalanced == RepairedBalanced(s)
=============================================================================
