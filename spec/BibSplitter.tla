----------------------------- MODULE BibSplitter -----------------------------
(***************************************************************************)
(* splitter.Splitter as a mark-driven scanner over TOKENS (C01-C04, C09).  *)
(*                                                                         *)
(* A token is [k |-> kind, w |-> id of its exact text].  Kinds:            *)
(*   ATE ATC ATP ATS   block start "@word[ \t]*" directly followed by "{"; *)
(*                     C/P/S: word is exactly comment/preamble/string      *)
(*                     (any case); E: any other word (an entry type)       *)
(*   LB RB QT CM EQ    the marks { } " , =  (not preceded by a backslash)  *)
(*   NL                every newline                                       *)
(*   SP                other whitespace;  W  plain text;  ESC  \{ \} \" .. *)
(* Positions are token indices 1..n; ranges are half-open [a, b).          *)
(*                                                                         *)
(* The scanner is the pure operator Step(toks, fe, s, i): one token, one   *)
(* control state (Appendix A of DESIGN.md).  The only freedom the          *)
(* specification leaves is where the raw text of a FAILED block ends       *)
(* (C03 fixes tiling, not that offset): `fe` maps the start of a failed    *)
(* block to an observed end; any end in (from, next block start] is        *)
(* admissible, the canonical one is the offending mark.                    *)
(***************************************************************************)
EXTENDS Naturals, Sequences, FiniteSets, SequencesExt, FiniteSetsExt, TLC

ATs   == {"ATE", "ATC", "ATP", "ATS"}
Ws    == {"SP", "NL"}
IsAT(k) == k \in ATs
MinOf(a, b) == IF a <= b THEN a ELSE b

\* ---- ranges -------------------------------------------------------------------
\* (first-order helpers are expressed with the Java-backed operators of the CommunityModules so that inputs of
\* 10^5 tokens are evaluated iteratively, without deep recursion)
NonWs(t) == t.k \notin Ws
IsATTok(t) == IsAT(t.k)
SkipWsFwd(toks, a, b) == LET j == SelectInSubSeq(toks, a, b - 1, NonWs) IN IF j = 0 THEN b ELSE j
SkipWsBwd(toks, a, b) == LET j == SelectLastInSubSeq(toks, a, b - 1, NonWs) IN IF j = 0 THEN a ELSE j + 1
\* str.strip() of the text of [a, b)
Trim(toks, a, b) == LET f == SkipWsFwd(toks, a, b) IN <<f, SkipWsBwd(toks, f, b)>>
CountNL(toks, a, b) == Quantify(a..(b - 1), LAMBDA j : toks[j].k = "NL")
NextAT(toks, i) == LET j == SelectInSubSeq(toks, i, Len(toks), IsATTok) IN IF j = 0 THEN Len(toks) + 1 ELSE j
NoATIn(toks, a, b) == SelectInSubSeq(toks, a, b - 1, IsATTok) = 0
\* the text of a range as a comparable value (token text ids)
Sig(toks, r) == [j \in 1..(r[2] - r[1]) |-> toks[r[1] + j - 1].w]

\* ---- state ----------------------------------------------------------------------
\* ctl: "O" outside | "A" after @type awaiting "{" | "B" braced body | "S0" | "E0" | "K" | "V" | "ERR"
Init0 == [ctl |-> "O", bk |-> "", d |-> 0, q |-> FALSE, from |-> 0, line0 |-> 0, line |-> 0,
          ics |-> 1, icl |-> 0, at |-> 0, lb |-> 0, keyR |-> <<0, 0>>, fields |-> <<>>,
          kstart |-> 0, fkeyR |-> <<0, 0>>, fline |-> 0, vstart |-> 0, out |-> <<>>]

Emit(s, b) == [s EXCEPT !.out = Append(@, b)]
\* back to "outside": free text starts at token index `at`, which lies on line `ln`
Outside(s, at, ln) == [s EXCEPT !.ctl = "O", !.d = 0, !.q = FALSE, !.ics = at, !.icl = ln, !.fields = <<>>]

\* implicit comment over [s.ics, i) if it has a non-blank token
EmitIC(toks, s, i) ==
    LET r == Trim(toks, s.ics, i) IN
    IF s.ics = 0 \/ r[1] >= r[2] THEN s
    ELSE Emit(s, [t |-> "icomment", from |-> r[1], to |-> r[2], line |-> s.icl + CountNL(toks, s.ics, r[1])])

\* duplicate field keys of an entry (set of key texts occurring more than once), one pass as in the code
DupKeys(toks, fs) ==
    FoldLeft(LAMBDA acc, f : LET k == Sig(toks, f.key) IN
                             IF k \in acc.seen THEN [acc EXCEPT !.dups = @ \cup {k}] ELSE [acc EXCEPT !.seen = @ \cup {k}],
             [seen |-> {}, dups |-> {}], fs).dups

EntryBlock(toks, s, fs, to) ==
    [t |-> IF DupKeys(toks, fs) = {} THEN "entry" ELSE "dupfield",
     from |-> s.from, to |-> to, line |-> s.line0, at |-> s.at, key |-> s.keyR, fields |-> fs]

\* admissible end of a failed block that started at s.from and was aborted at token i (i = n+1 at end of input)
FailEnd(toks, fe, s, i) ==
    IF s.from \in DOMAIN fe /\ fe[s.from] > s.from /\ fe[s.from] <= Len(toks) + 1
       /\ (fe[s.from] <= i \/ NoATIn(toks, i, fe[s.from])) THEN fe[s.from]
    ELSE MinOf(i, Len(toks) + 1)

\* abort: emit the failed block, hand the mark back to "outside"
Abort(toks, fe, s, i) ==
    LET to == FailEnd(toks, fe, s, i)
        ln == s.line0 + CountNL(toks, s.from, to)
    IN Outside(Emit(s, [t |-> "failed", from |-> s.from, to |-> to, line |-> s.line0, ab |-> MinOf(i, Len(toks) + 1)]), to, ln)

StartBlock(s, i, k) ==
    [s EXCEPT !.ctl = "A", !.from = i, !.line0 = s.line, !.at = i, !.ics = 0,
              !.bk = CASE k = "ATE" -> "entry" [] k = "ATC" -> "ecomment" [] k = "ATP" -> "preamble" [] k = "ATS" -> "string"]

\* a token seen in state "O"
StepO(toks, s, i, k) == IF IsAT(k) THEN StartBlock(EmitIC(toks, s, i), i, k) ELSE s

Step(toks, fe, s, i) ==
    LET k == toks[i].k IN
    IF k = "NL" THEN [s EXCEPT !.line = @ + 1]
    ELSE IF k \in {"SP", "W", "ESC", "H"} THEN s                 \* not marks ("H" is the word "#")
    ELSE CASE s.ctl = "O" -> StepO(toks, s, i, k)
      [] s.ctl = "A" ->
            IF k # "LB" THEN [s EXCEPT !.ctl = "ERR"]            \* the regex look-ahead guarantees "{"
            ELSE IF s.bk = "entry" THEN [s EXCEPT !.ctl = "E0", !.lb = i]
            ELSE IF s.bk = "string" THEN [s EXCEPT !.ctl = "S0", !.lb = i]
            ELSE [s EXCEPT !.ctl = "B", !.d = 0, !.lb = i, !.vstart = i + 1]
      [] s.ctl = "B" ->
            IF k = "LB" THEN [s EXCEPT !.d = @ + 1]
            ELSE IF k = "RB" /\ s.d > 0 THEN [s EXCEPT !.d = @ - 1]
            ELSE IF k = "RB" THEN
                 LET blk == CASE s.bk = "ecomment" -> [t |-> "ecomment", from |-> s.from, to |-> i + 1, line |-> s.line0,
                                                        val |-> Trim(toks, s.vstart, i)]
                              [] s.bk = "preamble" -> [t |-> "preamble", from |-> s.from, to |-> i + 1, line |-> s.line0,
                                                        val |-> <<s.vstart, i>>]
                              [] s.bk = "string"   -> [t |-> "string", from |-> s.from, to |-> i + 1, line |-> s.line0,
                                                        key |-> s.keyR, val |-> Trim(toks, s.vstart, i)]
                 IN Outside(Emit(s, blk), i + 1, s.line)
            ELSE IF IsAT(k) THEN StepO(toks, Abort(toks, fe, s, i), i, k)
            ELSE s                                                 \* " , = are inert inside braces
      [] s.ctl = "S0" ->
            IF k = "EQ" THEN [s EXCEPT !.ctl = "B", !.d = 0, !.keyR = Trim(toks, s.lb + 1, i), !.vstart = i + 1]
            ELSE StepO(toks, Abort(toks, fe, s, i), i, k)
      [] s.ctl = "E0" ->
            IF k = "RB" THEN
                 LET s1 == [s EXCEPT !.keyR = Trim(toks, s.lb + 1, i)]
                 IN Outside(Emit(s1, EntryBlock(toks, s1, <<>>, i + 1)), i + 1, s.line)
            ELSE IF k = "CM" THEN [s EXCEPT !.ctl = "K", !.keyR = Trim(toks, s.lb + 1, i), !.kstart = i + 1, !.fields = <<>>]
            ELSE StepO(toks, Abort(toks, fe, s, i), i, k)
      [] s.ctl = "K" ->
            IF k = "RB" THEN Outside(Emit(s, EntryBlock(toks, s, s.fields, i + 1)), i + 1, s.line)
            ELSE IF k = "EQ" THEN [s EXCEPT !.ctl = "V", !.q = FALSE, !.d = 0, !.fkeyR = Trim(toks, s.kstart, i),
                                            !.fline = s.line, !.vstart = i + 1]
            ELSE StepO(toks, Abort(toks, fe, s, i), i, k)
      [] s.ctl = "V" ->
            IF k = "QT" /\ s.d = 0 THEN [s EXCEPT !.q = ~@]          \* a quote inside braces is inert
            ELSE IF k = "LB" THEN [s EXCEPT !.d = @ + 1]               \* braces nest inside quotes as well
            ELSE IF k = "RB" /\ s.d > 0 THEN [s EXCEPT !.d = @ - 1]
            ELSE IF k \in {"CM", "RB"} /\ ~s.q /\ s.d = 0 THEN
                 LET f  == [key |-> s.fkeyR, val |-> Trim(toks, s.vstart, i), line |-> s.fline]
                     fs == Append(s.fields, f)
                 IN IF k = "CM" THEN [s EXCEPT !.ctl = "K", !.fields = fs, !.kstart = i + 1]
                    ELSE Outside(Emit(s, EntryBlock(toks, s, fs, i + 1)), i + 1, s.line)
            ELSE IF IsAT(k) THEN StepO(toks, Abort(toks, fe, s, i), i, k)
            ELSE s
      [] s.ctl = "ERR" -> s

\* end of input.  Failed blocks get their admissible end interval (lo, hi]: hi = next block start after the
\* offending mark (known only now, when the whole input has been seen)
\* (after a failed block the scanner is outside until the next @type token: that is the `from` of the next
\* block that is not an implicit comment)
WithBounds(toks, out) == [x \in DOMAIN out |->
    IF out[x].t = "failed"
    THEN [t |-> "failed", from |-> out[x].from, to |-> out[x].to, line |-> out[x].line, lo |-> out[x].from + 1,
          hi |-> IF x + 1 <= Len(out) /\ out[x + 1].t # "icomment" THEN out[x + 1].from
                 ELSE IF x + 2 <= Len(out) THEN out[x + 2].from ELSE Len(toks) + 1]
    ELSE out[x]]
Finish(toks, fe, s) ==
    LET n == Len(toks) IN
    WithBounds(toks, IF s.ctl = "O" THEN EmitIC(toks, s, n + 1).out
                     ELSE IF s.ctl = "ERR" THEN s.out
                     ELSE LET a == Abort(toks, fe, s, n + 1) IN EmitIC(toks, a, n + 1).out)

RunFrom(toks, fe, s, i) == FoldLeft(LAMBDA st, j : Step(toks, fe, st, j), s, [j \in 1..(Len(toks) + 1 - i) |-> i + j - 1])
Run(toks, fe) == Finish(toks, fe, RunFrom(toks, fe, Init0, 1))
NoFe == <<>>

\* ---- properties of an output (declarative; C01, C03) --------------------------
IsFailed(b) == b.t = "failed"
\* C03 tiling: ranges in order, disjoint, non-empty; every token outside every range is whitespace
AllWs(toks, a, b) == SelectInSubSeq(toks, a, b - 1, NonWs) = 0
Tiling(toks, out) ==
    /\ \A x \in DOMAIN out : out[x].from < out[x].to /\ out[x].from >= 1 /\ out[x].to <= Len(toks) + 1
    /\ \A x \in DOMAIN out : x > 1 => out[x - 1].to <= out[x].from
    /\ \A x \in DOMAIN out : AllWs(toks, IF x = 1 THEN 1 ELSE out[x - 1].to, out[x].from)
    /\ AllWs(toks, IF out = <<>> THEN 1 ELSE out[Len(out)].to, Len(toks) + 1)
\* C03 lines: start_line = number of newlines before the block's first token (stated incrementally)
Lines(toks, out) ==
    \A x \in DOMAIN out :
        out[x].line = (IF x = 1 THEN 0 ELSE out[x - 1].line) + CountNL(toks, IF x = 1 THEN 1 ELSE out[x - 1].from, out[x].from)
\* the "=" that ends a field key is the first non-blank token after the key range; a field reports its line
EqOf(toks, fl) == SkipWsFwd(toks, fl.key[2], Len(toks) + 1)
FieldLines(toks, out) ==
    \A x \in DOMAIN out : out[x].t \in {"entry", "dupfield"} =>
        \A f \in DOMAIN out[x].fields :
            LET fs == out[x].fields IN
            fs[f].line = (IF f = 1 THEN out[x].line ELSE fs[f - 1].line)
                         + CountNL(toks, IF f = 1 THEN out[x].from ELSE EqOf(toks, fs[f - 1]), EqOf(toks, fs[f]))
\* C01: failed blocks carry their raw text (a non-empty range starting at an @type token)
FailedCarry(toks, out) == \A x \in DOMAIN out : IsFailed(out[x]) => out[x].to > out[x].from /\ IsAT(toks[out[x].from].k)
\* every non-comment block starts at an @type token and (unless failed) ends with "}"
Shapes(toks, out) == \A x \in DOMAIN out : out[x].t # "icomment" =>
                        /\ IsAT(toks[out[x].from].k)
                        /\ IsFailed(out[x]) \/ toks[out[x].to - 1].k = "RB"
=============================================================================
