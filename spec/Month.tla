------------------------------- MODULE Month -------------------------------
(***************************************************************************)
(* The three month middlewares (C15) over abstract month values.           *)
(*                                                                         *)
(*  [t |-> "int", n]            a Python int                               *)
(*  [t |-> "digits", n, z]      decimal ASCII string of n with z leading 0 *)
(*  [t |-> "abbr", m, up]       3-letter abbreviation of month m; up = set *)
(*                              of upper-cased letter positions            *)
(*  [t |-> "full", m, up]       full English name, same convention         *)
(*  [t |-> "enc", k, inner]     enclosed text ({jan}, "1", ...)            *)
(*  [t |-> "word", w]           any other string                           *)
(*  [t |-> "other", w]          a value that is neither str nor int        *)
(*  [t |-> "absent"]            entry without a month field                *)
(*                                                                         *)
(* Declarative side: ToInt/ToAbbr/ToLong from the statement.  Operational  *)
(* side: OpInt/OpAbbr/OpLong transcribe the branch structure of month.py   *)
(* (as intended: out-of-range numbers return the VALUE unchanged).         *)
(***************************************************************************)
EXTENDS Naturals, Integers, Sequences, FiniteSets, TLC

NameLen == <<7, 8, 5, 5, 3, 4, 4, 6, 9, 7, 8, 8>>
MInt(n)      == [t |-> "int", n |-> n]
Abbr(m, up)  == [t |-> "abbr", m |-> m, up |-> up]
Full(m, up)  == [t |-> "full", m |-> m, up |-> up]

IsMonth(v) == \/ v.t \in {"int", "digits"} /\ v.n \in 1..12
              \/ v.t \in {"abbr", "full"}
MonthOf(v) == IF v.t \in {"int", "digits"} THEN v.n ELSE v.m

\* ---- declarative ------------------------------------------------------------
ToInt(v)  == IF IsMonth(v) THEN MInt(MonthOf(v)) ELSE v
ToAbbr(v) == IF IsMonth(v) THEN Abbr(MonthOf(v), {}) ELSE v
ToLong(v) == IF IsMonth(v) THEN Full(MonthOf(v), {1}) ELSE v
Decl(f, v) == CASE f = "int" -> ToInt(v) [] f = "abbr" -> ToAbbr(v) [] f = "long" -> ToLong(v)

\* "May"/"may" is both the abbreviation and the full name of month 5: same text
SameText(a, b) == \/ a = b
                  \/ /\ a.t \in {"abbr", "full"} /\ b.t \in {"abbr", "full"}
                     /\ a.m = 5 /\ b.m = 5 /\ a.up = b.up

\* ---- operational (branch structure of month.py) --------------------------------
IsStr(v) == v.t \in {"digits", "abbr", "full", "enc", "word"}
IsDigitStr(v) == v.t = "digits"
\* v.lower() in _MONTH_ABBREV / in _LOWERCASE_FULL
LowerIsAbbr(v) == v.t = "abbr" \/ (v.t = "full" /\ v.m = 5)
LowerIsFull(v) == v.t = "full" \/ (v.t = "abbr" /\ v.m = 5)

OpLong(v) ==
    LET n == IF IsDigitStr(v) \/ v.t = "int" THEN v.n ELSE 0 IN
    IF IsDigitStr(v) \/ v.t = "int"
    THEN IF n < 1 \/ n > 12 THEN v ELSE Full(n, {1})
    ELSE IF IsStr(v) /\ LowerIsAbbr(v) THEN Full(v.m, {1})
    ELSE IF IsStr(v) /\ LowerIsFull(v) THEN (IF v.up # {1} THEN Full(v.m, {1}) ELSE v)
    ELSE v

OpAbbr(v) ==
    LET n == IF IsDigitStr(v) \/ v.t = "int" THEN v.n ELSE 0 IN
    IF IsDigitStr(v) \/ v.t = "int"
    THEN IF n < 1 \/ n > 12 THEN v ELSE Abbr(n, {})
    ELSE IF IsStr(v) /\ LowerIsFull(v) THEN Abbr(v.m, {})
    ELSE IF IsStr(v) /\ LowerIsAbbr(v) /\ v.up # {} THEN Abbr(v.m, {})
    ELSE v

OpInt(v) ==
    IF IsStr(v) /\ LowerIsAbbr(v) THEN MInt(v.m)
    ELSE IF IsStr(v) /\ LowerIsFull(v) THEN MInt(v.m)
    ELSE IF IsDigitStr(v) /\ v.n \in 1..12 THEN MInt(v.n)
    ELSE v
Op(f, v) == CASE f = "int" -> OpInt(v) [] f = "abbr" -> OpAbbr(v) [] f = "long" -> OpLong(v)
=============================================================================
