------------------------------- MODULE Enclosing -------------------------------
(***************************************************************************)
(* RemoveEnclosingMiddleware / AddEnclosingMiddleware (C10; used by C05,    *)
(* C11).  A value is a sequence of token kinds:                             *)
(*    LB RB QT CM EQ  the characters { } " , =        SP  blanks             *)
(*    W  a word       D  a run of ASCII digits       H  "#"    ESC  \} ...   *)
(*    I  (alone) a Python int                                               *)
(* "One outer pair" is read lexically (DESIGN R4): after strip(), length >= 2,*)
(* first and last character are { } (or both ").                             *)
(***************************************************************************)
EXTENDS Naturals, Sequences, FiniteSets, TLC

RECURSIVE TrimL(_)
TrimL(v) == IF v # <<>> /\ Head(v) = "SP" THEN TrimL(Tail(v)) ELSE v
RECURSIVE TrimR(_)
TrimR(v) == IF v # <<>> /\ v[Len(v)] = "SP" THEN TrimR(SubSeq(v, 1, Len(v) - 1)) ELSE v
TrimSP(v) == TrimR(TrimL(v))
IsInt(v) == v = <<"I">>
IsDigits(v) == v = <<"D">> \/ IsInt(v)          \* str.isdigit() of the text / a Python int

\* one-layer strip with the recorded kind: "{" | "\"" | "none"
Strip(v) ==
    LET t == TrimSP(v) n == Len(t) IN
    IF n >= 2 /\ t[1] = "LB" /\ t[n] = "RB" THEN [v |-> SubSeq(t, 2, n - 1), k |-> "{"]
    ELSE IF n >= 2 /\ t[1] = "QT" /\ t[n] = "QT" THEN [v |-> SubSeq(t, 2, n - 1), k |-> "\""]
    ELSE [v |-> t, k |-> "none"]

Text(v) == IF IsInt(v) THEN <<"D">> ELSE v            \* str(int) is a digit run
Wrap(v, k) == CASE k = "{" -> <<"LB">> \o Text(v) \o <<"RB">>
                [] k = "\"" -> <<"QT">> \o Text(v) \o <<"QT">>
                [] k = "none" -> v
\* opts = [reuse, encInts, def]; meta = recorded kind or "absent"; numeric = key is in the numeric-field list
Enclose(v, meta, numeric, o) ==
    IF o.reuse /\ meta # "absent" THEN Wrap(v, meta)
    ELSE IF numeric /\ ~o.encInts /\ IsDigits(v) THEN v
    ELSE Wrap(v, o.def)
Opts == [reuse : BOOLEAN, encInts : BOOLEAN, def : {"{", "\""}]

\* ---- laws (the statement) ------------------------------------------------------
StripOne(v) ==
    LET s == Strip(v) t == TrimSP(v) IN
    /\ s.k = "{"  => Len(t) >= 2 /\ t = <<"LB">> \o s.v \o <<"RB">>
    /\ s.k = "\"" => Len(t) >= 2 /\ t = <<"QT">> \o s.v \o <<"QT">>
    /\ s.k = "none" => s.v = t /\ ~(Len(t) >= 2 /\ ((t[1] = "LB" /\ t[Len(t)] = "RB") \/ (t[1] = "QT" /\ t[Len(t)] = "QT")))
Restore(v) == \A o \in {x \in Opts : x.reuse} : \A numeric \in BOOLEAN :
                 Enclose(Strip(v).v, Strip(v).k, numeric, o) = TrimSP(v)
IntRule(v) == IsDigits(v) => \A o \in Opts : \A numeric \in BOOLEAN :
                 LET e == Enclose(v, "absent", numeric, o) IN
                 (e = v) <=> (numeric /\ ~o.encInts)
\* brace balance of a value (never negative, zero at the end)
RECURSIVE Bal(_, _)
Bal(v, d) == IF v = <<>> THEN d = 0
             ELSE IF Head(v) = "LB" THEN Bal(Tail(v), d + 1)
             ELSE IF Head(v) = "RB" THEN d > 0 /\ Bal(Tail(v), d - 1)
             ELSE Bal(Tail(v), d)
Balanced(v) == Bal(v, 0)
RECURSIVE BareQuote(_, _)
\* a quote at brace depth 0
BareQuote(v, d) == IF v = <<>> THEN FALSE
                   ELSE IF Head(v) = "LB" THEN BareQuote(Tail(v), d + 1)
                   ELSE IF Head(v) = "RB" THEN BareQuote(Tail(v), d - 1)
                   ELSE IF Head(v) = "QT" THEN d = 0 \/ BareQuote(Tail(v), d)
                   ELSE BareQuote(Tail(v), d)
=============================================================================
