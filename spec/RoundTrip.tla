------------------------------- MODULE RoundTrip -------------------------------
(* C05 on the model, at token level: the default write stack and the writer       *)
(* produce a token sequence from the content of a parsed library; parsing that    *)
(* sequence again (BibSplitter!Run, Interpolate!Parsed) must give the same        *)
(* content, and writing the second library the same tokens.                       *)
EXTENDS Interpolate

Sub(toks, r) == SubSeq(toks, r[1], r[2] - 1)
\* content of a parsed library: what C05 compares (types, keys, field order and values, comment/preamble/string text)
\* every block is described with the TOKENS of its parts, so that it can be written again
ContentOf(toks, out) ==
    LET p == Parsed(toks, out) IN
    [x \in DOMAIN out |->
        CASE out[x].t = "entry" /\ p[x].live ->
                 [t |-> "entry", at |-> toks[out[x].at], key |-> Sub(toks, out[x].key),
                  fields |-> [f \in DOMAIN out[x].fields |-> [k |-> Sub(toks, out[x].fields[f].key), v |-> Sub(toks, p[x].fields[f].val)]]]
          [] out[x].t = "string" /\ p[x].live -> [t |-> "string", at |-> toks[out[x].from], key |-> Sub(toks, out[x].key), v |-> Sub(toks, p[x].val)]
          [] out[x].t = "preamble" -> [t |-> "preamble", at |-> toks[out[x].from], v |-> Sub(toks, out[x].val)]
          [] out[x].t = "ecomment" -> [t |-> "ecomment", at |-> toks[out[x].from], v |-> Sub(toks, out[x].val)]
          [] out[x].t = "icomment" -> [t |-> "icomment", v |-> Sub(toks, <<out[x].from, out[x].to>>)]
          [] OTHER -> [t |-> "other"]]
WellFormed(toks, out) == Recognise(toks).ok /\ \A x \in DOMAIN out : ContentOf(toks, out)[x].t # "other"

TK(k, w) == [k |-> k, w |-> w]
LB == TK("LB", 1)  RB == TK("RB", 2)  CM == TK("CM", 4)  EQ == TK("EQ", 5)  NL == TK("NL", 6)  SP == TK("SP", 7)
\* fmt = [ind, pad, tc : BOOLEAN, sep : sequence of tokens]
FieldToks(f, last, fmt) ==
    (IF fmt.ind THEN <<SP>> ELSE <<>>) \o f.k \o (IF fmt.pad THEN <<SP>> ELSE <<>>) \o <<SP, EQ, SP, LB>> \o f.v \o <<RB>>
    \o (IF fmt.tc \/ ~last THEN <<CM>> ELSE <<>>) \o <<NL>>
RECURSIVE FieldsToks(_, _, _)
FieldsToks(fs, i, fmt) == IF i > Len(fs) THEN <<>> ELSE FieldToks(fs[i], i = Len(fs), fmt) \o FieldsToks(fs, i + 1, fmt)
BlockToks(b, fmt) ==
    CASE b.t = "entry"    -> <<b.at, LB>> \o b.key \o <<CM, NL>> \o FieldsToks(b.fields, 1, fmt) \o <<RB, NL>>
      [] b.t = "string"   -> <<b.at, LB>> \o b.key \o <<SP, EQ, SP, LB>> \o b.v \o <<RB, RB, NL>>
      [] b.t = "preamble" -> <<b.at, LB>> \o b.v \o <<RB, NL>>
      [] b.t = "ecomment" -> <<b.at, LB>> \o b.v \o <<RB, NL>>
      [] b.t = "icomment" -> b.v \o <<NL>>
RECURSIVE WriteToks(_, _, _)
WriteToks(c, i, fmt) == IF i > Len(c) THEN <<>>
                        ELSE BlockToks(c[i], fmt) \o (IF i < Len(c) THEN fmt.sep ELSE <<>>) \o WriteToks(c, i + 1, fmt)

RoundTripOK(toks, fmt) ==
    LET out == Run(toks, NoFe)
        c1 == ContentOf(toks, out)
        t2 == WriteToks(c1, 1, fmt)
        out2 == Run(t2, NoFe)
        c2 == ContentOf(t2, out2)
    IN WellFormed(toks, out) =>
          /\ c2 = c1                                   \* same blocks, types, keys, field order, values, texts
          /\ WriteToks(c2, 1, fmt) = t2                \* the written text is a fixpoint
          /\ WellFormed(t2, out2)                      \* and a document of the dialect again
=============================================================================
