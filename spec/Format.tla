------------------------------- MODULE Format -------------------------------
(***************************************************************************)
(* writer.BibtexFormat as a validated record (spec growth X03, feeds C06). *)
(*                                                                          *)
(* State: [indent, vc, sep, tc, pfc].  Every attribute is read back exactly *)
(* as it was set; only value_column validates: an int >= 0 or "auto" is     *)
(* accepted, everything else raises ValueError AND leaves the format as it  *)
(* was.  Values are abstract: [t |-> "int", n], [t |-> "str", s],           *)
(* [t |-> "bool", b], [t |-> "none"], [t |-> "float", n].                   *)
(* Named deviation from the prose of the docstring: Python's bool is an int *)
(* (True >= 0), so a bool is accepted as a column - the model says so.      *)
(***************************************************************************)
EXTENDS Integers, Sequences
Default == [indent |-> [t |-> "str", s |-> "TAB"], vc |-> [t |-> "int", n |-> 0], sep |-> [t |-> "str", s |-> "NLNL"],
            tc |-> [t |-> "bool", b |-> FALSE], pfc |-> [t |-> "str", s |-> "DEFAULT"]]
Attrs == {"indent", "value_column", "block_separator", "trailing_comma", "parsing_failed_comment"}
FieldOf(a) == CASE a = "indent" -> "indent" [] a = "value_column" -> "vc" [] a = "block_separator" -> "sep"
                [] a = "trailing_comma" -> "tc" [] a = "parsing_failed_comment" -> "pfc"
ValidVC(v) == \/ v.t = "int" /\ v.n >= 0
              \/ v.t = "bool"
              \/ v.t = "str" /\ v.s = "auto"
\* Set: [ok, f]  (ok = FALSE: ValueError, state unchanged)
Set(f, a, v) == IF a = "value_column" /\ ~ValidVC(v) THEN [ok |-> FALSE, f |-> f]
                ELSE [ok |-> TRUE, f |-> [f EXCEPT ![FieldOf(a)] = v]]
Get(f, a) == f[FieldOf(a)]
\* what the writer can rely on
WellFormed(f) == ValidVC(f.vc)
=============================================================================
