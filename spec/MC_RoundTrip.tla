------------------------------ MODULE MC_RoundTrip ------------------------------
(* Every document of <= MaxBlocks blocks over templates (entries with values from *)
(* the value pool incl. references, nested braces, quotes, concatenations,        *)
(* multi-line values; strings; preamble; both comment kinds) x every token-level  *)
(* format.                                                                        *)
EXTENDS RoundTrip, Json
CONSTANTS MaxBlocks
VARIABLES doc, fmt, done
W(n) == TK("W", 60 + n)
QT == TK("QT", 3)  H == TK("H", 9)  ESC == TK("ESC", 8)
ATE == TK("ATE", 10)  ATC == TK("ATC", 11)  ATP == TK("ATP", 12)  ATS == TK("ATS", 13)
\* W(1) = string key "s", W(2) = undefined name, W(3..) words
Vals == << <<W(1)>>, <<W(2)>>, <<LB, W(1), RB>>, <<QT, W(1), QT>>, <<W(1), SP, H, SP, W(1)>>, <<W(9)>>,
           <<LB, W(3), LB, W(4), RB, W(5), RB>>, <<QT, W(3), LB, QT, RB, W(4), QT>>, <<LB, W(3), CM, W(4), EQ, W(5), RB>>,
           <<LB, W(3), NL, SP, W(4), RB>>, <<LB, RB>>, <<QT, QT>>, <<LB, W(3), ESC, W(4), RB>>, <<QT, W(3), QT, SP, H, SP, LB, W(4), RB>> >>
Ent(key, a, b) == <<ATE, LB, W(key), CM, SP, W(20), EQ>> \o Vals[a] \o <<CM, NL, W(21), SP, EQ, SP>> \o Vals[b] \o <<NL, RB>>
Ent1(key, a) == <<ATE, LB, SP, W(key), SP, CM, W(20), SP, EQ>> \o Vals[a] \o <<CM, RB>>
Templates(i) ==   \* i = position (makes keys distinct)
    {Ent1(30 + i, a) : a \in DOMAIN Vals} \cup {Ent(30 + i, a, b) : a \in {1, 3, 7, 8}, b \in {2, 5, 10, 14}}
    \cup { <<ATE, LB, W(30 + i), RB>>,
           <<ATP, LB, SP, QT, W(3), QT, SP, RB>>, <<ATC, LB, SP, W(3), SP, W(4), RB>>, <<W(3), SP, W(4), EQ, CM>> }
    \cup (IF i = 1 THEN { <<ATS, LB, W(1), EQ, QT, W(6), SP, W(7), QT, RB>>, <<ATS, LB, SP, W(1), SP, EQ, SP, LB, W(6), RB, SP, RB>> }
          ELSE { <<ATS, LB, W(40 + i), EQ, W(1), RB>> })
RECURSIVE Docs(_)
Docs(n) == IF n = 0 THEN {<<>>} ELSE UNION {{d \o t \o <<NL>> : t \in Templates(n)} : d \in Docs(n - 1)} \cup Docs(n - 1)
FreeText(t) == Len(t) > 0 /\ t[1].k = "W"
Fmts == [ind : BOOLEAN, pad : BOOLEAN, tc : BOOLEAN, sep : {<<>>, <<NL>>, <<NL, NL>>, <<SP, NL>>}]
\* (formats are the initial states, documents the successors: TLC then spreads the work over its workers)
Init == doc = <<>> /\ fmt \in Fmts /\ done = FALSE
Next == ~done /\ done' = TRUE /\ fmt' = fmt /\ doc' \in Docs(MaxBlocks)
InvRoundTrip == RoundTripOK(doc, fmt)
\* non-vacuity: how many of the documents are well-formed is reported by the harness through this predicate
IsWellFormed == WellFormed(doc, Run(doc, NoFe))
=============================================================================
