-------------------------------- MODULE AndSplit --------------------------------
(***************************************************************************)
(* split_multiple_persons_names (C12, C14) at character-class level.        *)
(*   "a" "n" "d"   the letters of "and" (either case)                       *)
(*   "x"           any other non-blank character (letters, digits, ~ , ...)  *)
(*   "w"           whitespace: space, tab, CR, LF                            *)
(*   "{" "}"       braces          "b"  a backslash                          *)
(* Operational: the six-step scanner of the code with the brace level, the   *)
(* span list and the ESCAPE step (a backslash and the character after it are *)
(* plain name text: a name that was about to start starts there, and the     *)
(* "and" recogniser is reset).  Declarative: the set of separator            *)
(* occurrences defined by one left-to-right pass without steps.              *)
(* Pieces are half-open ranges [from, to) over the STRIPPED input.           *)
(***************************************************************************)
EXTENDS Naturals, Sequences, FiniteSets, SequencesExt, TLC

IsW(c) == c = "w"
RECURSIVE StripL(_)
StripL(s) == IF s # <<>> /\ IsW(Head(s)) THEN StripL(Tail(s)) ELSE s
RECURSIVE StripR(_)
StripR(s) == IF s # <<>> /\ IsW(s[Len(s)]) THEN StripR(SubSeq(s, 1, Len(s) - 1)) ELSE s
Strip(s) == StripR(StripL(s))

\* ---- operational --------------------------------------------------------------------
\* state: step, lvl, pe (possible end), spans (closed pieces), start (start of the open piece), skip (escape pending)
SInit == [step |-> "SW", lvl |-> 0, pe |-> 0, done |-> <<>>, start |-> 1, skip |-> FALSE]
StartName(st, i) == [st EXCEPT !.done = Append(@, <<st.start, st.pe>>), !.start = i]
SStep(st, s, i) ==
    LET c == s[i] IN
    IF st.skip THEN [st EXCEPT !.skip = FALSE]                               \* second character of an escape pair
    ELSE IF c = "b" THEN
        LET s1 == IF st.step = "NW" THEN StartName(st, i) ELSE st
        IN [s1 EXCEPT !.step = "SW", !.skip = TRUE]
    ELSE IF c = "{" THEN
        LET s1 == IF st.step = "NW" THEN StartName(st, i) ELSE st
        IN [s1 EXCEPT !.lvl = @ + 1, !.step = "SW"]
    ELSE IF c = "}" THEN [st EXCEPT !.lvl = IF @ > 0 THEN @ - 1 ELSE 0, !.step = "SW"]
    ELSE IF st.lvl > 0 THEN [st EXCEPT !.step = "SW"]
    ELSE CASE st.step = "SW" -> IF IsW(c) THEN [st EXCEPT !.step = "FA", !.pe = i] ELSE st
           [] st.step = "FA" -> IF c = "a" THEN [st EXCEPT !.step = "FN"] ELSE IF IsW(c) THEN st ELSE [st EXCEPT !.step = "SW"]
           [] st.step = "FN" -> IF c = "n" THEN [st EXCEPT !.step = "FD"]
                                ELSE IF IsW(c) THEN [st EXCEPT !.step = "FA", !.pe = i] ELSE [st EXCEPT !.step = "SW"]
           [] st.step = "FD" -> IF c = "d" THEN [st EXCEPT !.step = "EW"]
                                ELSE IF IsW(c) THEN [st EXCEPT !.step = "FA", !.pe = i] ELSE [st EXCEPT !.step = "SW"]
           [] st.step = "EW" -> IF IsW(c) THEN [st EXCEPT !.step = "NW"] ELSE [st EXCEPT !.step = "SW"]
           [] st.step = "NW" -> IF IsW(c) THEN st ELSE [StartName(st, i) EXCEPT !.step = "SW"]
Split(raw) ==
    LET s == Strip(raw) IN
    IF s = <<>> THEN <<>>
    ELSE LET f == FoldLeft(LAMBDA st, i : SStep(st, s, i), SInit, [i \in DOMAIN s |-> i])
         IN Append(f.done, <<f.start, Len(s) + 1>>)

\* ---- declarative ------------------------------------------------------------------
\* depth before position i and whether position i is the second half of an escape pair (one pass, no steps)
Marks(s) == FoldLeft(LAMBDA m, i :
                 IF m.esc THEN [m EXCEPT !.esc = FALSE, !.plain = Append(@, FALSE), !.dep = Append(@, m.d)]
                 ELSE IF s[i] = "b" THEN [m EXCEPT !.esc = TRUE, !.plain = Append(@, FALSE), !.dep = Append(@, m.d)]
                 ELSE IF s[i] = "{" THEN [m EXCEPT !.d = @ + 1, !.plain = Append(@, FALSE), !.dep = Append(@, m.d + 1)]
                 ELSE IF s[i] = "}" THEN [m EXCEPT !.d = IF @ > 0 THEN @ - 1 ELSE 0, !.plain = Append(@, FALSE), !.dep = Append(@, m.d),
                                                   !.neg = @ \/ m.d = 0]
                 ELSE [m EXCEPT !.plain = Append(@, m.d = 0), !.dep = Append(@, m.d)],
             [d |-> 0, esc |-> FALSE, neg |-> FALSE, plain |-> <<>>, dep |-> <<>>], [i \in DOMAIN s |-> i])
\* a plain position: depth 0, not a brace, not part of an escape pair
PlainW(s, m, i) == i \in DOMAIN s /\ m.plain[i] /\ IsW(s[i])
\* "and" at [i, i+2] with plain whitespace directly before and after
AndAt(s, m, i) == /\ i >= 2 /\ i + 3 <= Len(s)
                  /\ m.plain[i] /\ m.plain[i + 1] /\ m.plain[i + 2]
                  /\ s[i] = "a" /\ s[i + 1] = "n" /\ s[i + 2] = "d"
                  /\ PlainW(s, m, i - 1) /\ PlainW(s, m, i + 3)
RECURSIVE WsStart(_, _, _)
WsStart(s, m, i) == IF PlainW(s, m, i - 1) THEN WsStart(s, m, i - 1) ELSE i     \* first position of the plain blank run ending before i
RECURSIVE WsEnd(_, _, _)
WsEnd(s, m, i) == IF PlainW(s, m, i) THEN WsEnd(s, m, i + 1) ELSE i             \* first position after the plain blank run starting at i
\* separators, left to right: `last` is the position after the previous separator
RECURSIVE Seps(_, _, _, _)
Seps(s, m, i, last) ==
    IF i + 3 > Len(s) THEN <<>>
    ELSE IF AndAt(s, m, i)
            /\ WsStart(s, m, i) > last             \* a name (non-blank text) since the previous separator / the beginning
            /\ WsEnd(s, m, i + 3) <= Len(s)        \* a name follows
         THEN <<<<WsStart(s, m, i), WsEnd(s, m, i + 3)>>>> \o Seps(s, m, WsEnd(s, m, i + 3), WsEnd(s, m, i + 3))
         ELSE Seps(s, m, i + 1, last)
RefPieces(raw) ==
    LET s == Strip(raw) IN
    IF s = <<>> THEN <<>>
    ELSE LET sp == Seps(s, Marks(s), 2, 1)
         IN [k \in 1..(Len(sp) + 1) |-> <<IF k = 1 THEN 1 ELSE sp[k - 1][2], IF k = Len(sp) + 1 THEN Len(s) + 1 ELSE sp[k][1]>>]
\* unescaped braces are balanced: never a "}" at depth 0, depth 0 at the end
Balanced(s) == LET m == Marks(s) IN m.d = 0 /\ ~m.neg
\* conservation: pieces and gaps tile the stripped input; every gap is blanks + "and" + blanks
Conservation(raw, ps) ==
    LET s == Strip(raw) IN
    IF s = <<>> THEN ps = <<>>
    ELSE /\ ps # <<>> /\ ps[1][1] = 1 /\ ps[Len(ps)][2] = Len(s) + 1
         /\ \A k \in DOMAIN ps : ps[k][1] < ps[k][2] /\ ~PlainW(s, Marks(s), ps[k][1]) /\ ~PlainW(s, Marks(s), ps[k][2] - 1)
         /\ \A k \in 1..(Len(ps) - 1) :
               LET g == SubSeq(s, ps[k][2], ps[k + 1][1] - 1) t == Strip(g) IN
               t = <<"a", "n", "d">> /\ IsW(g[1]) /\ IsW(g[Len(g)])
\* merging with " and " and splitting again gives the same pieces (as texts)
Texts(raw, ps) == LET s == Strip(raw) IN [k \in DOMAIN ps |-> SubSeq(s, ps[k][1], ps[k][2] - 1)]
RECURSIVE JoinAnd(_)
JoinAnd(ts) == IF ts = <<>> THEN <<>> ELSE IF Len(ts) = 1 THEN ts[1] ELSE ts[1] \o <<"w", "a", "n", "d", "w">> \o JoinAnd(Tail(ts))
Idempotent(raw) == LET t == Texts(raw, Split(raw)) j == JoinAnd(t) IN Texts(j, Split(j)) = t
=============================================================================
