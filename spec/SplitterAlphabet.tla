-------------------------- MODULE SplitterAlphabet --------------------------
(* The abstract alphabet shared by the bounded-exhaustive splitter models.     *)
EXTENDS BibGrammar
\* abstract alphabet: name -> token.  w identifies the exact text (W1/W2 two different words, WB a lone
\* backslash, WA an "@word" that is not followed by "{")
T == [ATE |-> [k |-> "ATE", w |-> 10], ATC |-> [k |-> "ATC", w |-> 11], ATP |-> [k |-> "ATP", w |-> 12],
      ATS |-> [k |-> "ATS", w |-> 13], LB |-> [k |-> "LB", w |-> 1], RB |-> [k |-> "RB", w |-> 2],
      QT |-> [k |-> "QT", w |-> 3], CM |-> [k |-> "CM", w |-> 4], EQ |-> [k |-> "EQ", w |-> 5],
      NL |-> [k |-> "NL", w |-> 6], SP |-> [k |-> "SP", w |-> 7], ESC |-> [k |-> "ESC", w |-> 8],
      HASH |-> [k |-> "H", w |-> 9], W1 |-> [k |-> "W", w |-> 21], W2 |-> [k |-> "W", w |-> 22], WB |-> [k |-> "W", w |-> 23], WA |-> [k |-> "W", w |-> 24]]
Alphabet == DOMAIN T
Of(names) == [i \in DOMAIN names |-> T[names[i]]]

WClass == {"W1", "W2", "WA", "WB", "HASH"}
\* a block-start token is always followed by "{" (the regex look-ahead): it is appended together with it
Add(a) == IF IsAT(T[a].k) THEN <<T[a], T["LB"]>> ELSE <<T[a]>>
\* adjacent plain-text tokens would lex as one token; a lone backslash is generated before a newline or an escape only; an
\* "@word" that is not a block start must not be followed by blanks/brace
OkNext(toks, a) ==
    /\ ~(Len(toks) > 0 /\ toks[Len(toks)].k \in {"W", "H"} /\ a \in WClass)
    /\ ~(Len(toks) > 0 /\ toks[Len(toks)].k = "SP" /\ a = "SP")
    /\ ~(Len(toks) > 0 /\ toks[Len(toks)].w = 23 /\ a \notin {"NL", "ESC"})     \* "\" NL   and   "\\}" (escaped delimiter after a backslash)
    /\ ~(Len(toks) > 0 /\ toks[Len(toks)].w = 24 /\ a \in {"LB", "SP"})
=============================================================================
