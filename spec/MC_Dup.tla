-------------------------------- MODULE MC_Dup --------------------------------
(* Every document of up to MaxBlocks blocks over templates whose entry keys,    *)
(* string keys and field keys come from small pools: every collision pattern    *)
(* and interleaving (C09).                                                      *)
EXTENDS BibLibrary, Json
CONSTANTS MaxBlocks
VARIABLES doc, done
\* alphabet as in SplitterAlphabet, plus a third word W3 (value text) and field keys F G FF (= "f", "g", "F")
T == [ATE |-> [k |-> "ATE", w |-> 10], ATC |-> [k |-> "ATC", w |-> 11], ATP |-> [k |-> "ATP", w |-> 12],
      ATS |-> [k |-> "ATS", w |-> 13], LB |-> [k |-> "LB", w |-> 1], RB |-> [k |-> "RB", w |-> 2],
      QT |-> [k |-> "QT", w |-> 3], CM |-> [k |-> "CM", w |-> 4], EQ |-> [k |-> "EQ", w |-> 5],
      NL |-> [k |-> "NL", w |-> 6], SP |-> [k |-> "SP", w |-> 7],
      W1 |-> [k |-> "W", w |-> 21], W2 |-> [k |-> "W", w |-> 22], W3 |-> [k |-> "W", w |-> 25],
      F |-> [k |-> "W", w |-> 31], G |-> [k |-> "W", w |-> 32], FF |-> [k |-> "W", w |-> 33]]
Of(names) == [i \in DOMAIN names |-> T[names[i]]]
Fld(k, v) == <<"SP", k, "EQ", "LB", v, "RB">>
Ent(key, fs) == <<"ATE", "LB", key>> \o fs \o <<"RB">>
Templates == <<
  Ent("W1", <<"CM">> \o Fld("F", "W3")),                                    \* 1  k1 {f}
  Ent("W1", <<"CM">> \o Fld("G", "W1")),                                    \* 2  k1 {g}   (same key, other content)
  Ent("W2", <<"CM">> \o Fld("F", "W3")),                                    \* 3  k2 {f}
  Ent("W1", <<"CM">> \o Fld("F", "W3") \o <<"CM">> \o Fld("F", "W1")),        \* 4  k1 {f, f}      duplicate field
  Ent("W2", <<"CM">> \o Fld("F", "W3") \o <<"CM">> \o Fld("G", "W1") \o <<"CM">> \o Fld("F", "W2") \o <<"CM">>),  \* 5 k2 {f,g,f}
  Ent("W1", <<"CM">> \o Fld("F", "W3") \o <<"CM">> \o Fld("FF", "W1")),       \* 6  k1 {f, F}      differs in case only
  <<"ATS", "LB", "W1", "EQ", "QT", "W3", "QT", "RB">>,                        \* 7  @string k1
  <<"ATS", "LB", "W2", "EQ", "W1", "RB">>,                                    \* 8  @string k2
  <<"ATS", "LB", "W1", "EQ", "LB", "W2", "RB", "RB">>,                        \* 9  @string k1 (other value)
  <<"ATC", "LB", "W1", "RB">>,                                              \* 10
  <<"W1", "SP", "W2">>,                                                     \* 11 free text
  Ent("W1", <<>>)                                                           \* 12 k1 without fields
>>
RECURSIVE Docs(_)
Docs(n) == IF n = 0 THEN {<<>>} ELSE LET p == Docs(n - 1) IN p \cup {Append(d, t) : d \in {x \in p : Len(x) = n - 1}, t \in DOMAIN Templates}
RECURSIVE Concat(_)
Concat(d) == IF d = <<>> THEN <<>> ELSE Templates[Head(d)] \o <<"NL">> \o Concat(Tail(d))
Toks(d) == Of(Concat(d))

\* two adjacent stretches of free text are ONE source block
NoAdjacentText(d) == \A i \in 1..(Len(d) - 1) : ~(d[i] = 11 /\ d[i + 1] = 11)
Init == doc \in {d \in Docs(MaxBlocks) : NoAdjacentText(d)} /\ done = FALSE
Next == /\ ~done /\ done' = TRUE /\ doc' = doc
        /\ LET t == Toks(doc) o == Run(t, NoFe) IN
           PrintT(ToJson([d |-> doc, w |-> [i \in DOMAIN t |-> t[i].w], out |-> o, lib |-> LibDesc(t, o)]))
InvDup == LET t == Toks(doc) IN DupOK(t, Run(t, NoFe))
InvCount == LET t == Toks(doc) IN Len(Run(t, NoFe)) = Len(doc)      \* one block per source block
InvWellFormed == LET t == Toks(doc) r == Recognise(t) IN
                 \* without duplicate field keys and duplicate block keys the document is in the dialect
                 (\A i \in DOMAIN doc : doc[i] \notin {4, 5}) => Doc(t, 1, <<>>).ok
=============================================================================
