---------------------------- MODULE Trace_NameParse ----------------------------
(* T3 / corpus validation for the name parser: names abstracted to character     *)
(* tokens by the harness; TLC runs NameParse!Parse and evaluates the declarative *)
(* clauses on the result (the specification must satisfy them on every recorded  *)
(* name as well).                                                                *)
EXTENDS NameParse, Json, IOUtils
Trace == JsonDeserialize(IOEnv.TRACE_FILE)
VARIABLES tid
N == Len(Trace)
Init == tid = 1
Next ==
    \/ /\ tid <= N
       /\ LET c == Trace[tid]
              r == Parse(c.s)
          IN PrintT(ToJson([id |-> c.id, r |-> r,
                            spec |-> IF (r.err # "") # RefError(c.s) THEN "errors"
                                     ELSE IF r.err = "" /\ ~PartsOK(c.s, r) THEN "parts" ELSE ""]))
       /\ tid' = tid + 1
    \/ /\ tid = N + 1
       /\ PrintT(ToJson([done |-> N]))
       /\ tid' = N + 2
=============================================================================
