------------------------------ MODULE MC_Month ------------------------------
(* Complete: every value class x every stack of one or two month middlewares. *)
EXTENDS Month, Json
VARIABLES v0, hist, v
vars == <<v0, hist, v>>
Fs == {"int", "abbr", "long"}
Values ==
       {MInt(n) : n \in -1..14}
  \cup {[t |-> "digits", n |-> n, z |-> z] : n \in 0..14, z \in 0..2}
  \cup UNION {{Abbr(m, up) : up \in SUBSET (1..3)} : m \in 1..12}
  \cup UNION {{Full(m, up) : up \in SUBSET (1..NameLen[m])} : m \in 1..12}
  \cup {[t |-> "enc", k |-> k, inner |-> i] : k \in {"{", "\""}, i \in {"jan", "1", "March", "12"}}
  \cup {[t |-> "word", w |-> w] : w \in {"", "foo", "janu", "Jan.", "sept", "1.5", "-1", "+1", " 1", "jan ", "1 ", "0x1", "1e0", "mai", "janfeb", "jan # feb"}}
  \cup {[t |-> "other", w |-> w] : w \in {"None", "float", "list", "tuple"}}
  \cup {[t |-> "absent"]}
Init == v0 \in Values /\ v = v0 /\ hist = <<>>
Next == /\ Len(hist) < 2
        /\ \E f \in Fs :
             /\ hist' = Append(hist, f)
             /\ v' = Op(f, v)
             /\ v0' = v0
             /\ PrintT(ToJson([v0 |-> v0, fs |-> hist', v |-> v']))

\* the statement of C15, on the model
Table    == Len(hist) = 1 => SameText(v, Decl(hist[1], v0))
Compose  == Len(hist) = 2 /\ IsMonth(v0) => SameText(v, Decl(hist[2], v0))
Identity == ~IsMonth(v0) => v = v0
OutputsCanonical == Len(hist) >= 1 /\ IsMonth(v0) =>
                      \/ v.t = "int" /\ v.n \in 1..12
                      \/ v.t = "abbr" /\ v.up = {}
                      \/ v.t = "full" /\ v.up = {1}
=============================================================================
