------------------------------ MODULE Trace_Writer ------------------------------
(* T3 for the writer: libraries obtained by parsing random documents (failed and  *)
(* duplicate blocks included), projected through the public attributes, with      *)
(* random formats; TLC recomputes the text with Writer!Write and compares it with  *)
(* the text the real writer produced.                                              *)
EXTENDS Writer, Json, IOUtils
Trace == JsonDeserialize(IOEnv.TRACE_FILE)
VARIABLES tid
N == Len(Trace)
Init == tid = 1
Next ==
    \/ /\ tid <= N
       /\ LET c == Trace[tid]
              want == IF c.may_raise THEN "" ELSE Write(c.lib, c.fmt)
              \* c.may_raise: the library holds a non-string field value, or the warning template is one str.format rejects -
              \* the writer may raise then, but the format object must still be as it was
              bad == IF ~c.fmt_unchanged THEN "format_changed"
                     ELSE IF c.raised THEN (IF c.may_raise THEN "" ELSE "raised")
                     ELSE IF c.may_raise THEN ""
                     ELSE IF c.out # want THEN "text"
                     ELSE IF ~ColumnLaw(c.lib, c.fmt) \/ ~AutoAligned(c.lib, c.fmt) THEN "spec-lemma"
                     ELSE IF ~c.fmt_unchanged THEN "format_changed"
                     ELSE ""
          IN IF bad = "" THEN TRUE
             ELSE PrintT(ToJson([reject |-> c.id, at |-> 1, clause |-> bad,
                                 expected |-> [out |-> want, fixed |-> Fixed(c.lib, c.fmt), col |-> Column(c.lib, c.fmt)]]))
       /\ tid' = tid + 1
    \/ /\ tid = N + 1
       /\ PrintT(ToJson([done |-> N]))
       /\ tid' = N + 2
=============================================================================
