---------------------------- MODULE Oracle_TwoDocs ----------------------------
(* Spec growth (X02): parse_string(doc2, library=parse_string(doc1)).  The       *)
(* library after the second parse is Library!AddLoop continued over the blocks   *)
(* of the second document: keys collide ACROSS the two documents exactly as       *)
(* within one.  A case holds the tokens of both documents (text ids interned      *)
(* jointly) and the index `cut` of the first token of the second document.        *)
EXTENDS BibLibrary, Json, IOUtils
Trace == JsonDeserialize(IOEnv.TRACE_FILE)
VARIABLES tid
N == Len(Trace)
Init == tid = 1
Toks(c, a, b) == [i \in 1..(b - a + 1) |-> [k |-> c.k[a + i - 1], w |-> c.w[a + i - 1]]]
Objs(toks, out, base) == [x \in DOMAIN out |-> [ObjOf(toks, out, x) EXCEPT !.id = base + x, !.eqc = base + x]]
Next ==
    \/ /\ tid <= N
       /\ LET c == Trace[tid]
              t1 == Toks(c, 1, c.cut - 1)
              t2 == Toks(c, c.cut, Len(c.k))
              o1 == Run(t1, NoFe)
              o2 == Run(t2, NoFe)
              st == L!AddLoop(L!AddLoop(L!Empty, Objs(t1, o1, 0), FALSE).st, Objs(t2, o2, Len(o1)), FALSE).st
          IN PrintT(ToJson([id |-> c.id, n1 |-> Len(o1), n2 |-> Len(o2),
                            blocks |-> [x \in DOMAIN st.blocks |-> PosDesc(st.blocks[x])],
                            live_entries |-> {st.eidx[k].id : k \in DOMAIN st.eidx},
                            live_strings |-> {st.sidx[k].id : k \in DOMAIN st.sidx},
                            consistent |-> L!Consistent(st)]))
       /\ tid' = tid + 1
    \/ /\ tid = N + 1
       /\ PrintT(ToJson([done |-> N]))
       /\ tid' = N + 2
=============================================================================
