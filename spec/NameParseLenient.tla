---------------------------- MODULE NameParseLenient ----------------------------
(* parse_single_name_into_parts(name, strict=False): the repairs of the non-strict *)
(* mode (spec growth beyond the listed properties; see DESIGN section 16).          *)
(*   unmatched closing brace   -> an opening brace is inserted at the start of the  *)
(*                                current word                                      *)
(*   more than two commas      -> no new section: the extra parts join First        *)
(*   unterminated opening brace-> closing braces are appended to the last word      *)
(*   trailing comma            -> the empty last section is dropped                 *)
(* A word is [r, c, pre, post]: token range, case, number of inserted "{" / "}".    *)
EXTENDS NameMerge

LInit == [secs |-> <<<<>>>>, ws |-> 0, pre |-> 0, case |-> "Z", lvl |-> 0, bstart |-> FALSE, cseq |-> TRUE, spec |-> FALSE]
LOpen(st, i) == IF st.ws = 0 THEN [st EXCEPT !.ws = i] ELSE st
LEndWord(st, i, post) ==
    IF st.ws = 0 THEN st
    ELSE [st EXCEPT !.secs[Len(st.secs)] = Append(@, [r |-> <<st.ws, i>>, c |-> st.case, pre |-> st.pre, post |-> post]),
                    !.ws = 0, !.pre = 0, !.case = "Z", !.cseq = FALSE, !.spec = FALSE]
LStep(st, s, i) ==
    LET c == s[i] IN
    IF c \in {"EU", "EL", "EA"} THEN
        LET o == LOpen(st, i) IN
        IF st.bstart THEN [o EXCEPT !.bstart = FALSE, !.cseq = (c # "EA"), !.spec = TRUE]
        ELSE IF st.case = "Z" /\ c # "EA" THEN [o EXCEPT !.case = CaseOf(c)]
        ELSE o
    ELSE IF c = "{" THEN [LOpen(st, i) EXCEPT !.lvl = @ + 1, !.bstart = TRUE, !.cseq = FALSE, !.spec = FALSE]
    ELSE LET s0 == [st EXCEPT !.bstart = FALSE] IN
         IF c = "}" THEN
             IF s0.lvl = 0 THEN [LOpen(s0, i) EXCEPT !.pre = @ + 1, !.cseq = FALSE, !.spec = FALSE]      \* repair: insert "{"
             ELSE [LOpen(s0, i) EXCEPT !.lvl = @ - 1, !.cseq = FALSE, !.spec = FALSE]
         ELSE IF s0.lvl > 0 THEN
             LET o == LOpen(s0, i) IN
             IF s0.cseq THEN (IF ~Alpha(c) THEN [o EXCEPT !.cseq = FALSE] ELSE o)
             ELSE IF s0.spec /\ s0.case = "Z" /\ Alpha(c) THEN [o EXCEPT !.case = CaseOf(c)]
             ELSE o
         ELSE IF c = "C" \/ Sep(c) THEN
             LET e == LEndWord(s0, i, 0) IN
             IF c = "C" /\ Len(e.secs) < 3 THEN [e EXCEPT !.secs = Append(@, <<>>)] ELSE e                  \* repair: merge extra parts
         ELSE LET o == LOpen(s0, i) IN IF o.case = "Z" /\ Alpha(c) THEN [o EXCEPT !.case = CaseOf(c)] ELSE o
LTokenize(s) ==
    LET f == FoldLeft(LAMBDA st, i : LStep(st, s, i), LInit, [i \in DOMAIN s |-> i])
        e == LEndWord(f, Len(s) + 1, f.lvl).secs                                                            \* repair: close braces
    IN IF e[Len(e)] = <<>> THEN SubSeq(e, 1, Len(e) - 1) ELSE e                                             \* repair: drop trailing comma
LParse(s) == LET secs == LTokenize(s) IN [parts |-> Partition(secs), secs |-> secs]

\* ---- what can be said declaratively about the lenient mode -------------------------------
Plain(p) == [i \in DOMAIN p |-> [r |-> p[i].r, c |-> p[i].c]]
PlainParts(p) == [first |-> Plain(p.first), von |-> Plain(p.von), last |-> Plain(p.last), jr |-> Plain(p.jr)]
NoRepairs(p) == \A part \in {p.first, p.von, p.last, p.jr} : \A i \in DOMAIN part : part[i].pre = 0 /\ part[i].post = 0
\* on a valid name the lenient mode is the strict mode
AgreesWithStrict(s) == LET r == Parse(s) l == LParse(s) IN r.err = "" => PlainParts(l.parts) = r.parts /\ NoRepairs(l.parts)
\* after the repairs every word is brace-balanced
WordBalanced(s, w) ==
    LET body == SubSeq(s, w.r[1], w.r[2] - 1)
        opens == w.pre + Cardinality({i \in DOMAIN body : body[i] = "{"})
        closes == w.post + Cardinality({i \in DOMAIN body : body[i] = "}"})
    IN opens = closes
RepairedBalanced(s) == LET l == LParse(s) IN \A k \in DOMAIN l.secs : \A i \in DOMAIN l.secs[k] : WordBalanced(s, l.secs[k][i])
=============================================================================
