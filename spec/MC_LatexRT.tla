------------------------------- MODULE MC_LatexRT -------------------------------
(* Clause (iii) of C18 is a CONTRACT on the third-party converter, not something  *)
(* a model can derive:    Dec(Enc(t)) = t   for every text t over the alphabet.   *)
(* This module only enumerates the texts: sequences of up to MaxSym symbol        *)
(* classes, joined by single blanks or directly, for the harness to check the     *)
(* contract on the real middlewares.                                              *)
EXTENDS Naturals, Sequences, TLC, Json
CONSTANTS MaxSym
VARIABLES t, n
Classes == {"LET", "DIG", "ACC", "PUN", "TEX", "URL", "MATH", "WORD"}
Joins == {"sp", "none"}
Init == t = <<>> /\ n = 0
Next == /\ n < MaxSym /\ n' = n + 1
        /\ \E c \in Classes, j \in Joins :
             /\ (t = <<>> => j = "sp")
             /\ (c \in {"URL", "MATH"} \/ (t # <<>> /\ t[Len(t)][1] \in {"URL", "MATH"}) => j = "sp")   \* URLs and math spans are blank-delimited
             /\ t' = Append(t, <<c, j>>)
             /\ PrintT(ToJson([t |-> t']))
=============================================================================
