------------------------------ MODULE Library ------------------------------
(***************************************************************************)
(* library.Library: a block list plus two key indexes (C08, C09, C16).     *)
(*                                                                         *)
(* A block object is a record [id, kind, key, eqc]:                        *)
(*   id   identity of the Python object                                    *)
(*   kind "entry" | "string" | "preamble" | "ecomment" | "icomment"        *)
(*        | "failed" (a plain ParsingFailedBlock / middleware error block) *)
(*        | "dupfield" (DuplicateFieldKeyBlock)                            *)
(*        | "dup" (DuplicateBlockKeyBlock created by the library)          *)
(*   key  the key of entries/strings/wrappers ("" otherwise)               *)
(*   eqc  structural-equality class: two distinct objects may share it     *)
(*        (list.remove / list.index compare with ==).  Failed blocks carry *)
(*        an exception compared by identity: their eqc is their id.        *)
(* A duplicate wrapper additionally has dup (id of the wrapped block) and  *)
(* prev (id of the block holding the key when it was wrapped).  Wrappers   *)
(* are created by the library and equal only themselves, so an operation   *)
(* names one by its position in the list: argument [pos |-> i].            *)
(*                                                                         *)
(* Every operation is a pure function st -> [st, out], written from the    *)
(* code line by line; out is "ok" or "ValueError".  The IDEAL operations   *)
(* leave the state unchanged when they raise (last clause of C08).  Named  *)
(* DEVIATIONS describe what the code is documented to do instead.          *)
(***************************************************************************)
EXTENDS Naturals, Sequences, FiniteSets, TLC

Empty == [blocks |-> <<>>, eidx |-> <<>>, sidx |-> <<>>]

Put(f, k, v) == [x \in DOMAIN f \cup {k} |-> IF x = k THEN v ELSE f[x]]
Drop(f, k)   == [x \in DOMAIN f \ {k} |-> f[x]]
RemoveAt(s, i) == SubSeq(s, 1, i - 1) \o SubSeq(s, i + 1, Len(s))
InsertAt(s, i, x) == SubSeq(s, 1, i - 1) \o <<x>> \o SubSeq(s, i, Len(s))

IsWrapper(b) == b.kind = "dup"
IsPos(a) == "pos" \in DOMAIN a
Wrap(b, prev) == [id |-> "W", kind |-> "dup", key |-> b.key, eqc |-> "W", dup |-> b.id, prev |-> prev.id]

\* _add_to_dicts: returns the state and the block that is actually stored
AddToDicts(st, b) ==
    IF b.kind = "entry" THEN
        IF b.key \in DOMAIN st.eidx THEN [st |-> st, blk |-> Wrap(b, st.eidx[b.key]), wrapped |-> TRUE]
        ELSE [st |-> [st EXCEPT !.eidx = Put(st.eidx, b.key, b)], blk |-> b, wrapped |-> FALSE]
    ELSE IF b.kind = "string" THEN
        IF b.key \in DOMAIN st.sidx THEN [st |-> st, blk |-> Wrap(b, st.sidx[b.key]), wrapped |-> TRUE]
        ELSE [st |-> [st EXCEPT !.sidx = Put(st.sidx, b.key, b)], blk |-> b, wrapped |-> FALSE]
    ELSE [st |-> st, blk |-> b, wrapped |-> FALSE]

\* the loop of add(): append each block after key-safe registration
RECURSIVE AddLoop(_, _, _)
AddLoop(st, bs, anyWrapped) ==
    IF bs = <<>> THEN [st |-> st, wrapped |-> anyWrapped]
    ELSE LET r == AddToDicts(st, Head(bs))
         IN AddLoop([r.st EXCEPT !.blocks = Append(@, r.blk)], Tail(bs), anyWrapped \/ r.wrapped)

\* IDEAL add: a raising call leaves the library as it was
Add(st, bs, fail) ==
    LET r == AddLoop(st, bs, FALSE)
    IN IF fail /\ r.wrapped THEN [st |-> st, out |-> "ValueError"] ELSE [st |-> r.st, out |-> "ok"]
\* DEVIATION AddRaiseAfterInsert: documented + unit-tested behaviour of the code
AddDev(st, bs, fail) ==
    LET r == AddLoop(st, bs, FALSE)
    IN [st |-> r.st, out |-> IF fail /\ r.wrapped THEN "ValueError" ELSE "ok"]

\* list.index / list.remove: first element == argument (0 = not found)
IndexOf(st, a) ==
    IF IsPos(a) THEN (IF a.pos \in DOMAIN st.blocks /\ IsWrapper(st.blocks[a.pos]) THEN a.pos ELSE 0)
    ELSE LET hits == {i \in DOMAIN st.blocks : ~IsWrapper(st.blocks[i]) /\ st.blocks[i].eqc = a.eqc}
         IN IF hits = {} THEN 0 ELSE CHOOSE i \in hits : \A j \in hits : i <= j

\* one iteration of remove(): precondition IndexOf # 0
RemoveOne(st, a) ==
    LET i == IndexOf(st, a)
        s1 == [st EXCEPT !.blocks = RemoveAt(@, i)]
    IN IF IsPos(a) THEN s1
       ELSE IF a.kind = "entry" THEN [s1 EXCEPT !.eidx = Drop(@, a.key)]
       ELSE IF a.kind = "string" THEN [s1 EXCEPT !.sidx = Drop(@, a.key)]
       ELSE s1

RECURSIVE RemoveLoop(_, _)
RemoveLoop(st, as) ==
    IF as = <<>> THEN [st |-> st, out |-> "ok"]
    ELSE IF IndexOf(st, Head(as)) = 0 THEN [st |-> st, out |-> "ValueError"]
    ELSE RemoveLoop(RemoveOne(st, Head(as)), Tail(as))

\* IDEAL remove: all-or-nothing
Remove(st, as) ==
    LET r == RemoveLoop(st, as)
    IN IF r.out = "ok" THEN r ELSE [st |-> st, out |-> "ValueError"]
\* DEVIATION RemovePartial: blocks before the missing one are already gone when it raises
RemoveDev(st, as) == RemoveLoop(st, as)

\* replace(): index, remove, register, positional insert, rollback on duplicate
ReplaceNoFail(st, old, new) ==
    LET i  == IndexOf(st, old)
        s1 == RemoveOne(st, old)
        r  == AddToDicts(s1, new)
    IN [st |-> [r.st EXCEPT !.blocks = InsertAt(@, i, r.blk)], wrapped |-> r.wrapped, i |-> i]

Replace(st, old, new, fail) ==
    IF IndexOf(st, old) = 0 THEN [st |-> st, out |-> "ValueError"]
    ELSE LET r == ReplaceNoFail(st, old, new)
         IN IF r.wrapped /\ fail
            THEN \* "Revert changes": replace(block_after_add, old_block, fail_on_duplicate_key=False)
                 LET oldObj == IF IsPos(old) THEN st.blocks[old.pos] ELSE old
                 IN [st |-> ReplaceNoFail(r.st, [pos |-> r.i], oldObj).st, out |-> "ValueError"]
            ELSE [st |-> r.st, out |-> "ok"]

\* ---- views (library.py:155-197) -------------------------------------------
OfKind(st, ks) == SelectSeq(st.blocks, LAMBDA b : b.kind \in ks)
VEntries(st)   == OfKind(st, {"entry"})
VPreambles(st) == OfKind(st, {"preamble"})
VComments(st)  == OfKind(st, {"ecomment", "icomment"})
VFailed(st)    == OfKind(st, {"failed", "dupfield", "dup"})
VStrings(st)   == {st.sidx[k] : k \in DOMAIN st.sidx}          \* order is not part of C08
VStringsSeq(st) == OfKind(st, {"string"})
Views(st) == [blocks |-> st.blocks, entries |-> VEntries(st), entries_dict |-> st.eidx,
              strings |-> VStrings(st), strings_dict |-> st.sidx, preambles |-> VPreambles(st),
              comments |-> VComments(st), failed_blocks |-> VFailed(st)]

\* compact descriptors for export: an object by its id, a wrapper by what it wraps
Desc(b) == IF IsWrapper(b) THEN "W/" \o b.key \o "/" \o b.dup \o "/" \o b.prev ELSE b.id
DescSeq(s) == [i \in DOMAIN s |-> Desc(s[i])]
DescFn(f) == [k \in DOMAIN f |-> Desc(f[k])]
DViews(st) == [blocks |-> DescSeq(st.blocks), entries |-> DescSeq(VEntries(st)), entries_dict |-> DescFn(st.eidx),
               strings |-> {Desc(x) : x \in VStrings(st)}, strings_dict |-> DescFn(st.sidx),
               preambles |-> DescSeq(VPreambles(st)), comments |-> DescSeq(VComments(st)),
               failed_blocks |-> DescSeq(VFailed(st))]
DescArg(a) == IF IsPos(a) THEN a ELSE [id |-> a.id]

\* ---- the property, stated on a state (declarative) --------------------------
Range(s) == {s[i] : i \in DOMAIN s}
KeyedExact(st, kind, idx) ==
    LET held == {i \in DOMAIN st.blocks : st.blocks[i].kind = kind}
    IN /\ \A i, j \in held : st.blocks[i].key = st.blocks[j].key => i = j          \* no two share a key
       /\ DOMAIN idx = {st.blocks[i].key : i \in held}                             \* exactly the held keys
       /\ \A i \in held : idx[st.blocks[i].key] = st.blocks[i]                     \* ... mapped to those objects
Partition(st) ==
    /\ Len(VEntries(st)) + Len(VStringsSeq(st)) + Len(VPreambles(st)) + Len(VComments(st)) + Len(VFailed(st))
         = Len(st.blocks)
    /\ VStrings(st) = Range(VStringsSeq(st))
    /\ Cardinality(VStrings(st)) = Len(VStringsSeq(st))
Consistent(st) ==
    /\ KeyedExact(st, "entry", st.eidx)
    /\ KeyedExact(st, "string", st.sidx)
    /\ Partition(st)

\* abstraction used by "a call that raises leaves the library equal to what it was":
\* equality of libraries is structural (eqc), wrappers by what they wrap
AbsB(b) == IF IsWrapper(b) THEN <<"W", b.key, b.dup, b.prev>> ELSE <<b.kind, b.eqc>>
AbsSt(st) == [blocks |-> [i \in DOMAIN st.blocks |-> AbsB(st.blocks[i])],
              eidx |-> [k \in DOMAIN st.eidx |-> AbsB(st.eidx[k])],
              sidx |-> [k \in DOMAIN st.sidx |-> AbsB(st.sidx[k])]]
=============================================================================
