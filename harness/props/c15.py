"""C15 — month middlewares share one 12-month table, compose, leave non-months alone.

T1/T2: MC_Month (complete: 1890 value classes x stacks of 1-2 middlewares, 24570 states); every edge
       replayed on the three real middlewares in copy mode and in place.
T3:    random values of any type / arbitrary Unicode -> Trace_Month (totality, identity, table).
"""
from __future__ import annotations

import random

from .. import core

CFG = """INIT Init
NEXT Next
INVARIANT Table
INVARIANT Compose
INVARIANT Identity
INVARIANT OutputsCanonical
CHECK_DEADLOCK FALSE
"""
# reference data of the harness (independent of month.py): the English month names
FULL = ["January", "February", "March", "April", "May", "June", "July", "August", "September", "October",
        "November", "December"]
ABBR = [m[:3].lower() for m in FULL]
FULL_LOWER = [m.lower() for m in FULL]
ABSENT = object()


def mask(s, up):
    return "".join(c.upper() if (i + 1) in up else c for i, c in enumerate(s.lower()))


def conc(v):
    t = v["t"]
    if t == "int":
        return v["n"]
    if t == "digits":
        return "0" * v["z"] + str(v["n"])
    if t == "abbr":
        return mask(ABBR[v["m"] - 1], set(v["up"]))
    if t == "full":
        return mask(FULL[v["m"] - 1], set(v["up"]))
    if t == "enc":
        return v["k"] + v["inner"] + ("}" if v["k"] == "{" else '"')
    if t == "word":
        return v["w"]
    if t == "other":
        return {"None": None, "float": 1.5, "list": ["jan"], "tuple": ("jan",)}[v["w"]]
    if t == "absent":
        return ABSENT
    raise core.MachineryError(f"bad abstract month value {v}")


def alpha(x):
    if x is ABSENT:
        return {"t": "absent"}
    if isinstance(x, bool):
        return {"t": "ambiguous"}
    if isinstance(x, int):
        return {"t": "int", "n": int(x)} if abs(x) < 10 ** 6 else {"t": "other", "w": "bigint"}
    if isinstance(x, str):
        if x.isascii():
            if x.isdigit():
                t = x.lstrip("0")
                if len(t) > 2:
                    return {"t": "word", "w": "bigdigits"}
                n = int(t or "0")
                return {"t": "digits", "n": n, "z": len(x) - len(str(n))}
            lo = x.lower()
            up = [i + 1 for i, c in enumerate(x) if c.isupper()]
            if lo in ABBR:
                return {"t": "abbr", "m": ABBR.index(lo) + 1, "up": up}
            if lo in FULL_LOWER:
                return {"t": "full", "m": FULL_LOWER.index(lo) + 1, "up": up}
            return {"t": "word", "w": "w"}
        # non-ASCII text that Python's digit/case machinery may read as a month spelling: only totality is demanded
        # (a word that only CASE-FOLDS to a month name, like 'auguſt', is not one of the 2^n letter-case variants the
        # statement quantifies over: it is an "other word" and must come back unchanged)
        if x.isdigit() or x.isdecimal() or x.isnumeric() or x.lower() in ABBR or x.lower() in FULL_LOWER:
            return {"t": "ambiguous"}
        return {"t": "word", "w": "u"}
    return {"t": "other", "w": type(x).__name__}


def same(a, b):
    if a is ABSENT or b is ABSENT:
        return a is b
    if a is b:
        return True
    if isinstance(a, float) and isinstance(b, float) and a != a and b != b:
        return True   # NaN
    return type(a) is type(b) and a == b


def apply_stack(bib, value, fs, inplace, history=False):
    """Run the real middlewares; returns (outcome, result value, others_untouched).

    history=True: the entry has already been through all three middlewares (its metadata says so) and its month
    was edited afterwards; the result must not depend on that."""
    mw = bib.middlewares
    cls = {"int": mw.MonthIntMiddleware, "abbr": mw.MonthAbbreviationMiddleware, "long": mw.MonthLongStringMiddleware}
    M = bib.model
    fields = [M.Field("title", "May 12")]
    if value is not ABSENT:
        fields.append(M.Field("month", value))
    fields.append(M.Field("year", "1"))
    # the entry's raw text never mentions the field under test (raw is what was parsed once, not what the entry holds now),
    # and the library defines a @string whose KEY is spelled like the value (an unrelated macro)
    blocks = [M.Entry("article", "k", fields, start_line=0, raw="@article{k, title = {May 12}, year = 1}"), M.String("month", "jan"),
              M.ImplicitComment("march")]
    if isinstance(value, str) and value:
        blocks.append(M.String(value, "macro with that name"))
    nblocks = len(blocks)
    if value is not ABSENT and not history and (len(fs) + (len(value) if isinstance(value, str) else 0)) % 2:
        # the month reached the entry late and through the field LIST (built without it, looked at, then inserted):
        # a middleware finds the field that is there now
        e0 = blocks[0]
        mf = next(f for f in e0.fields if f.key == "month")
        e0.fields = [f for f in e0.fields if f.key != "month"]
        _ = ("month" in e0, e0.fields_dict, e0.get("month"))
        e0.fields.insert(1, mf)
    lib = bib.Library(blocks)
    inst = {}

    def the(f):
        # with a history, the SAME middleware objects have already worked (on this entry, which then held the value
        # in the other letter case): a middleware's answer is a function of the value it is given now
        if not history:
            return cls[f](allow_inplace_modification=inplace)
        if f not in inst:
            inst[f] = cls[f](allow_inplace_modification=inplace)
        return inst[f]
    try:
        if history:
            e0 = lib.entries[0]
            keep = [f for f in e0.fields]
            earlier = value.swapcase() if isinstance(value, str) and value.swapcase() != value else "dec"
            for first in ("long", "int", "abbr"):
                e0 = lib.entries[0]
                e0.fields = [M.Field("title", "May 12"), M.Field("month", earlier), M.Field("year", "1")]
                lib = the(first).transform(lib)
            lib.entries[0].fields = keep
        for f in fs:
            lib = the(f).transform(lib)
    except Exception as e:
        return type(e).__name__, None, True
    e = lib.entries[0] if lib.entries else None
    if e is None or len(lib.blocks) != nblocks:
        return "ok", "<entry lost>", False
    got = e.fields_dict["month"].value if "month" in e.fields_dict else ABSENT
    keys = [f.key for f in e.fields]
    others = (e["title"] == "May 12" and e["year"] == "1" and lib.strings[0].value == "jan"
              and lib.comments[0].comment == "march" and e.key == "k" and e.entry_type == "article"
              and keys == (["title", "month", "year"] if value is not ABSENT else ["title", "year"]))
    return "ok", got, others


def show(x):
    if x is ABSENT:
        return "<absent>"
    if type(x).__name__ == "Field":
        return "<the Field object instead of its value>"
    try:
        return repr(x)
    except Exception:
        return "<%s>" % type(x).__name__


_G = {}


def _chunk(lines):
    bib = _G["bib"]
    out = {"n": 0, "mism": [], "samples": []}
    for line in lines:
        e = core.parse_export(line)
        v0, want = conc(e["v0"]), conc(e["v"])
        for inplace, history in ((True, False), (False, False), (False, True)):
            out["n"] += 1
            oc, got, others = apply_stack(bib, v0, e["fs"], inplace, history)
            clause = ""
            if oc != "ok":
                clause = "total"
            elif not same(got, want):
                clause = "identity" if e["v0"]["t"] not in ("abbr", "full") and not (
                    e["v0"]["t"] in ("int", "digits") and 1 <= e["v0"]["n"] <= 12) else ("table" if len(e["fs"]) == 1 else "compose")
            elif not others:
                clause = "others_untouched"
            if clause:
                out["mism"].append({"clause": clause, "input": {"kind": "stack", "value": show(v0), "abstract": e["v0"],
                                                               "fs": e["fs"], "inplace": inplace, "history": history},
                                    "observed": {"outcome": oc, "value": show(got)}, "expected": {"outcome": "ok", "value": show(want)}})
        if not out["samples"] and e["v0"]["t"] == "full":
            out["samples"].append({"value": show(v0), "middlewares": e["fs"], "result": show(want)})
    return out


def sig_of(m):
    return None


import enum  # noqa: E402


class _IE(enum.IntEnum):
    """an int month given as a member of an IntEnum (like calendar.MARCH): an int like any other"""
    MAR = 3
    DEC = 12
    THIRTEEN = 13


class _SubInt(int):
    pass


def rand_values(rnd, n):
    digits = "0123456789²³¹٣٤۵७१２３４⑤"
    letters = "janfebmrchpilyugstovdJANFEBMRCHPILYUGSTOVDıİſK \t{}\"#-+."
    lookalikes = ["ſep", "ſEPTEMBER", "auguſt", "auguﬆ", "AUGUﬅ", "ſeptember", "ǆ", "Ｊａｎ", "jän", "İan", "ıan", " 3", "3 ", "+3", "1_2", "\t12\n", "marzo", "Januar",
                  "Sept", "decade", "June 2020", "jan.", "May ", "0x3", "3.0", "٣", "１２", "jan\n", "March\n", "DECEMBER\n", "\njan", "3\n", "jan\r"]
    vals = []
    for i in range(n):
        r = rnd.random()
        if r < 0.15:
            vals.append("".join(rnd.choice(digits) for _ in range(rnd.randint(1, 4))))
        elif r < 0.25:
            vals.append("0" * rnd.randint(0, 30) + str(rnd.randint(0, 20)))
        elif r < 0.30:
            vals.append(str(rnd.randint(0, 10 ** 40)) if rnd.random() < 0.9 else "1" * 5000)
        elif r < 0.5:
            m = rnd.choice(FULL + ABBR)
            vals.append("".join(c.upper() if rnd.random() < 0.5 else c.lower() for c in m))
        elif r < 0.6:
            vals.append(rnd.choice([None, 1.5, True, False, ["jan"], ("jan",), {"a": 1}, b"jan", 0, -3, 13, 10 ** 30, 5, 12, float("nan"), 10 ** 4400, -(10 ** 5000), _IE(3), _IE(12), _IE(13), _SubInt(7)]))
        elif r < 0.7:
            vals.append(rnd.randint(-5, 20))
        elif r < 0.78:
            vals.append(rnd.choice(lookalikes))
        else:
            vals.append("".join(rnd.choice(letters + digits) for _ in range(rnd.randint(0, 9))))
    return vals


def run(chk: core.Check):
    bib = core.import_repo()
    chk.extra["rule"] = ("T2: every (value class, stack of 1-2 month middlewares) of MC_Month x {in place, copy}; "
                         "non-trivial = distinct (value, stack, mode); T3: random values of any type validated by Trace_Month")
    res = core.run_tlc("MC_Month", CFG)
    chk.add_tlc(res, "MC_Month complete: Table, Compose, Identity, OutputsCanonical")
    _G["bib"] = bib
    lines = list(res.raw_lines())
    outs = core.pmap(_chunk, core.chunks(lines, len(lines) // 32 + 1))
    n = sum(o["n"] for o in outs)
    chk.traces += n
    chk.evaluations += n
    chk.nontrivial.update(range(n))
    chk.clause("T2.stack(value,type,others)", n)
    chk.exhaustive = True
    for o in outs:
        for s in o["samples"]:
            chk.sample(s)
        for m in o["mism"]:
            chk.mismatch(m["clause"], m["input"], m["observed"], m["expected"], signature=sig_of(m),
                         spec={"module": "Month", "operator": "Op/Decl"}, kind="month_stack")
    if n != 3 * res.exported or n == 0:
        raise core.MachineryError("C15 export/replay count mismatch")

    # ---- T3 ---------------------------------------------------------------
    rnd = random.Random(chk.seed + 15)
    vals = rand_values(rnd, 3000 if chk.tier == "quick" else 100000)
    cases = []
    raw = {}
    for i, x in enumerate(vals):
        fs = [rnd.choice(["int", "abbr", "long"]) for _ in range(rnd.choice([1, 1, 2]))]
        inplace = rnd.random() < 0.5
        oc, got, others = apply_stack(bib, x, fs, inplace)
        a = alpha(x)
        cases.append({"id": i, "fs": fs, "v": a, "out": oc,
                      "res": alpha(got) if oc == "ok" else {"t": "none"},
                      "same": oc == "ok" and same(got, x) and others})
        raw[i] = (x, fs, inplace, got)
    verdict = core.validate_traces("Trace_Month", cases, shards=8)
    for r in verdict.results:
        chk.add_tlc(r, "Trace_Month shard", count_states=False)
    chk.traces += len(cases) - len(verdict.rejects)
    chk.evaluations += len(cases)
    chk.clause("T3.values", len(cases))
    for rj in verdict.rejects:
        x, fs, inplace, got = raw[rj["reject"]]
        c = cases[rj["reject"]]
        chk.mismatch(rj["clause"], {"kind": "stack", "value": show(x), "abstract": c["v"], "fs": fs, "inplace": inplace},
                     {"outcome": c["out"], "value": show(got)}, rj["expected"],
                     spec={"module": "Trace_Month"}, kind="month_stack")
    chk.assumptions += ["bool values and non-ASCII digit look-alikes are only checked for 'no exception'; a word that only case-FOLDS to a month name (ſep, auguﬆ) is an other word",
                        "metadata message strings are not compared"]


def replay(rec, chk):
    bib = core.import_repo()
    inp = rec["input"]
    import ast
    v = ABSENT if inp["value"] == "<absent>" else ast.literal_eval(inp["value"].replace("nan", "None"))
    oc, got, others = apply_stack(bib, v, inp["fs"], inp["inplace"], inp.get("history", False))
    obs = {"outcome": oc, "value": show(got)}
    exp = rec["expected"]
    if isinstance(exp, dict) and "value" in exp:
        ok = obs == exp
    else:
        ok = oc == "ok" and (rec["clause"] != "identity" or same(got, v))
    return obs, exp, ok
