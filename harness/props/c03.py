"""C03 — block raw texts tile the source without loss or overlap; line numbers are true.

T1/T2: MC_Splitter: Tiling, Lines, FieldLines on the model for every explored input; every input replayed in several
       spellings (CRLF, tabs, backslash-newline, blocks sharing a line) and compared with the exported ranges/lines;
       differences are judged by TLC on the OBSERVED ranges (Oracle_Splitter: Tiling, Lines).
T3:    families, garbage, packed documents.
"""
from __future__ import annotations

import random

from .. import core, splitpipe

CLAUSES = {"tiling", "start_line", "field_line"}


def report(chk, r):
    mine = [c for c in ("tiling", "start_line", "field_line") if c in r["diff"]]
    if not mine:
        return False
    chk.mismatch(mine[0], {"kind": "text", "text": r["text"] if len(r["text"]) < 4000 else None,
                           "text_head": r["text"][:200], "len": len(r["text"])},
                 {"detail": r["diff"][mine[0]],
                  "blocks": [[o["cls"], o["raw"] if o["raw"] is None else o["raw"][:80], o["line"]] for o in r["obs"][:12]]},
                 {"blocks": [[e["cls"], e.get("raw", "")[:80], e["line"]] for e in r["exp"][:12]]},
                 spec={"module": "BibSplitter", "operator": "Tiling/Lines/FieldLines"}, kind="text")
    return True


def run(chk: core.Check):
    bib = core.import_repo()
    rnd = random.Random(chk.seed + 3)
    chk.extra["rule"] = ("T2: every token sequence prefix x suffix of MC_Splitter in 2-4 spellings; T3: families, garbage, "
                         "documents with blocks sharing lines; non-trivial = distinct abstract token sequence / text")
    if chk.tier == "quick":
        runs = [(3, range(1, splitpipe.NPREFIX + 1), 2)]
        scales, ngarb = [1100], 3000
    else:
        runs = [(4, range(1, splitpipe.NPREFIX + 1), 3), (5, [1], 2)]
        scales, ngarb = [1000, 10000], 60000
    unattributed = 0
    for maxsuffix, prefixes, nvar in runs:
        recs, counters, _ = splitpipe.t2(chk, bib, maxsuffix, prefixes, nvar)
        for k, v in counters.items():
            chk.extra[k] = chk.extra.get(k, 0) + v
        chk.clause("T2.tiling+start_line+field_line", counters["t2_concrete_runs"])
        for r in recs:
            if not report(chk, r):
                unattributed += 1
    chk.exhaustive = True
    texts = []
    for n in scales:
        texts += list(splitpipe.families(n).values())
    garb = splitpipe.garbage(rnd, ngarb) + splitpipe.ugarbage(rnd, ngarb // 2)
    packed = []
    blocks = ["@a{k%d, f = {v}}", "@string{s%d = \"x\"}", "@comment{c%d}", "@preamble{p%d}", "text%d", "@a{k%d, f = {x", "@b{j%d}",
              "@a{k%d,\n f\n = 1,\n g = {a\nb}\n}", "\\\n", "\r\n", " ", "\n\n", "@a{k%d, f = \"a\\\nb\"}"]
    for i in range(ngarb // 3):
        packed.append("".join(b.replace("%d", str(rnd.randint(0, 9))) for b in rnd.choices(blocks, k=rnd.randint(1, 8))))
    recs = splitpipe.t3(chk, bib, texts + garb + packed)
    chk.clause("T3.families", len(texts))
    chk.clause("T3.garbage+packed", len(garb) + len(packed))
    for r in recs:
        if r["diff"] and not report(chk, r):
            unattributed += 1
    # the same claims on what parse_string returns with the DEFAULT stack (values are transformed there, raw texts,
    # start lines and field lines are not): reference-heavy derivations and packed documents
    from .. import docgen
    from . import c05
    docs = [c05.refdoc(rnd) for _ in range(ngarb // 6)] + [docgen.random_doc(rnd, rnd.randint(1, 6)).text for _ in range(ngarb // 6)] + packed[: ngarb // 6]
    # a text may begin with characters that are not whitespace for the scanner but often treated as such elsewhere (U+FEFF,
    # U+200B, U+00A0): they belong to the first block like any other character
    docs += [rnd.choice(["\ufeff", "\ufeff\n", "\u200b", "\u00a0 ", "\ufeff\ufeff "]) + d for d in docs[: ngarb // 12]]
    # ... a third each with a fresh default stack, with ONE stack object shared by all calls, with a copy-mode default stack
    for j, how in enumerate(("default", "default_shared", "default_copy")):
        recs = splitpipe.t3(chk, bib, docs[j::3], how=how)
        for r in recs:
            if r["diff"] and not report(chk, r):
                unattributed += 1
    chk.clause("T3.default_stack(tiling, start_line, field_line)", len(docs))
    chk.extra["unattributed_conformance_differences"] = unattributed
    chk.assumptions += ["the end offset of a failed block is free within (start, next block start] (C03 fixes tiling only)",
                        "field start_line is compared only when the key and '=' are on one line"]


def replay(rec, chk):
    bib = core.import_repo()
    from .. import splitobs
    text = rec["input"]["text"]
    if text is None:
        raise core.MachineryError("input too large to be stored in the replay file")
    recs, _ = splitobs.evaluate(bib, [text])
    d = {k: v for k, v in recs[0]["diff"].items() if k in CLAUSES}
    return d, rec["expected"], not d
