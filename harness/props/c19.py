"""C19 — an entry behaves like an insertion-ordered mapping; equality is structural.

T1/T2: MC_Entry (complete graph, every edge replayed), MC_EntryEq (every perturbation pair).
T3:    random histories on parsed entries -> Trace_Entry; perturbed parsed blocks -> Trace_EntryEq.
"""
from __future__ import annotations

import copy
import random

from .. import core

CFG = """INIT Init
NEXT Next
CONSTANTS
 Keys = {"a","A","b"}
 Vals = {"1","2"}
 Ety = "article"
 Eid = "key1"
INVARIANT InvRefines
INVARIANT InvViews
INVARIANT InvDistinct
CHECK_DEADLOCK FALSE
"""
CFG_EQ = "INIT Init\nNEXT Next\nINVARIANT InvEq\nCHECK_DEADLOCK FALSE\n"

_SENT = object()


def absv(f):
    """abstract value of a Field: its value text, marked "n" when the Field has no start line; a Field with a line
    must carry the line it was created with (10 x its numeric value in the T2 universe)"""
    v = f.value
    if not isinstance(v, str):
        v = f"{v!r}#{type(v).__name__}"          # a non-str value is stored as it is given (type included)
    if f.start_line is None:
        return f"{v}~"
    if isinstance(v, str) and v.isdigit() and f.start_line != 10 * int(v):
        return f"{v}@line{f.start_line}"
    return v


def concrete(v):
    """abstract value text -> the Python value it stands for ("7#int" -> 7, "2.5#float" -> 2.5)"""
    if isinstance(v, str) and v.endswith("#int"):
        return int(v[:-4])
    if isinstance(v, str) and v.endswith("#float"):
        return float(v[:-6])
    if v == "None#NoneType":
        return None
    return v


def mkfield(model, k, v):
    if isinstance(v, str) and v.endswith("~"):
        return model.Field(k, concrete(v[:-1]))
    if concrete(v) is not v:
        return model.Field(k, concrete(v), 0)
    return model.Field(k, v, 10 * int(v) if isinstance(v, str) and v.isdigit() else 0)


def proj_fields(fs):
    return [{"k": f.key, "v": absv(f)} for f in fs]


def apply_op(entry, op, model):
    """Apply one abstract operation to a real Entry, return the abstract result."""
    Field = model.Field
    k, v = op["k"], op.get("v")
    try:
        o = op["op"]
        if o == "set_field":
            r = entry.set_field(mkfield(model, k, v))
            return {"t": "none"} if r is None else {"t": "other", "repr": repr(r)}
        if o == "setitem":
            if not (isinstance(v, str) and v.endswith("~")):
                raise core.MachineryError("item assignment takes an abstract value without a line (suffix ~)")
            entry[k] = concrete(v[:-1])
            return {"t": "none"}
        if o == "pop":
            r = entry.pop(k, _SENT)
            if r is _SENT:
                return {"t": "default"}
            return {"t": "field", "k": r.key, "v": absv(r)}
        if o == "delitem":
            try:
                del entry[k]
            except KeyError:
                pass  # a KeyError for a missing key is also dictionary behaviour (state-only clause)
            return {"t": "none"}
        if o == "get":
            r = entry.get(k, _SENT)
            if r is _SENT:
                return {"t": "default"}
            return {"t": "field", "k": r.key, "v": absv(r)}
        if o == "contains":
            return {"t": "bool", "b": k in entry}
        if o == "rename":
            next(f for f in entry.fields if f.key == k).key = v      # the public setter of the held Field object
            return {"t": "none"}
        if o == "getitem":
            try:
                val = entry[k]
                if k not in ("ENTRYTYPE", "ID"):
                    f = next((x for x in entry.fields if x.key == k), None)
                    # the lookup answers with the VALUE of the field stored under exactly that key
                    if f is not None and type(val) is type(f.value) and val == f.value:
                        val = absv(f)
                    else:
                        val = f"<item lookup returned {val!r}>"
                return {"t": "val", "v": val}
            except KeyError:
                return {"t": "KeyError"}
    except Exception as e:  # any other exception is an observable result
        return {"t": "exception", "type": type(e).__name__}
    raise core.MachineryError(f"unknown op {op}")


def observe(entry):
    d = entry.fields_dict
    return {
        "t": proj_fields(entry.fields),
        "d": [{"k": k, "v": absv(f)} for k, f in d.items()],
        "it": [{"k": k, "v": v} for k, v in list(entry.items())[:2]] + [{"k": f.key, "v": absv(f)} for f in entry.fields
                                                                          if any(k2 == f.key and v2 == f.value for k2, v2 in list(entry.items())[2:])],
    }


def replay_edge(edge, model):
    e = model.Entry("article", "key1", [mkfield(model, f["k"], f["v"]) for f in edge["s"]])
    r = apply_op(e, edge["i"], model)
    obs = observe(e)
    obs["r"] = r
    # the dict view must also agree by key
    return obs


# --- equality ---------------------------------------------------------------
def build_obj(o, model):
    c, at = o["cls"], o["at"]
    if c == "Field":
        return model.Field(at["key"], at["value"], at["start_line"])
    if c == "Entry":
        b = model.Entry(at["entry_type"], at["key"], [build_obj(f, model) for f in at["fields"]],
                        at["start_line"], at["raw"])
    elif c == "String":
        b = model.String(at["key"], at["value"], at["start_line"], at["raw"])
    elif c == "Preamble":
        b = model.Preamble(at["value"], at["start_line"], at["raw"])
    elif c == "ExplicitComment":
        b = model.ExplicitComment(at["comment"], at["start_line"], at["raw"])
    elif c == "ImplicitComment":
        b = model.ImplicitComment(at["comment"], at["start_line"], at["raw"])
    else:
        raise core.MachineryError(c)
    b.set_parser_metadata("m", at["metadata"])
    return b


def proj_obj(b, model):
    """Public-API projection of a block/field to the [cls, at] record of the spec."""
    c = type(b).__name__
    if c == "Field":
        return {"cls": c, "at": {"key": b.key, "value": _v(b.value), "start_line": _n(b.start_line)}}
    at = {"start_line": _n(b.start_line), "raw": b.raw if b.raw is not None else "<None>",
          "metadata": core.canon(_meta(b.parser_metadata))}
    if c == "Entry":
        at.update(entry_type=b.entry_type, key=b.key, fields=[proj_obj(f, model) for f in b.fields])
    elif c == "String":
        at.update(key=b.key, value=_v(b.value))
    elif c == "Preamble":
        at.update(value=_v(b.value))
    else:
        at.update(comment=_v(b.comment))
    return {"cls": c, "at": at}


def _n(x):
    return -1 if x is None else x


def _v(x):
    return x if isinstance(x, str) else "<%s>%r" % (type(x).__name__, x)


def _meta(m):
    return {str(k): (v if isinstance(v, (str, int, bool, type(None))) else repr(v)) for k, v in m.items()}


SAMPLE_DOC = """% a comment line
@string{s1 = "hello"}
@preamble{"\\newcommand{\\x}{y}"}
@comment{explicit one}
@article{k1,
  title = {A {B} c},
  Author = "x and y",
  year = 2001,
  note = s1 # " w"
}
free text
@book{k2, a = {1}, A = {2}, b = 3}
@misc{k3}
"""


def perturbations(b, model, rnd):
    """Yield (label, other) where other differs from b in exactly one attribute."""
    def cp():
        return copy.deepcopy(b)
    c = type(b).__name__
    if c == "Field":
        for lab, fn in (("key", lambda o: setattr(o, "key", o.key + "x")),
                        ("value", lambda o: setattr(o, "value", o.value + " ")),
                        ):
            o = cp(); fn(o); yield lab, o
        yield "start_line", model.Field(b.key, b.value, (b.start_line or 0) + 1)
        return
    o = cp(); o.set_parser_metadata("zz", 1); yield "metadata", o
    if hasattr(b, "key"):
        o = cp(); o.key = b.key + "_"; yield "key", o
        # a key that differs only in letter case / only under case folding / only by Unicode normalisation is another key
        if b.key.swapcase() != b.key:
            o = cp(); o.key = b.key.swapcase(); yield "key-case", o
        for lab, (k1, k2) in (("key-casefold", (b.key + "ß", b.key + "ss")), ("key-nfc", (b.key + "e\u0301", b.key + "\u00e9"))):
            o1 = cp(); o1.key = k1
            o2 = cp(); o2.key = k2
            yield lab, (o1, o2)
    if c == "Entry":
        o = cp(); o.entry_type = b.entry_type + "x"; yield "entry_type", o
        if b.fields:
            o = cp(); o.fields = list(reversed(o.fields))
            if len(b.fields) > 1:
                yield "fields-order", o
            o = cp(); o.fields = o.fields[:-1]; yield "fields-drop", o
            o = cp(); o.fields[0].value = str(o.fields[0].value) + "!"; yield "field-value", o
            o = cp(); o.fields[-1].key = o.fields[-1].key.swapcase() + "q"; yield "field-key", o
        o = cp(); o.fields = o.fields + [model.Field("zz", "1")]; yield "fields-add", o
        for lab, o in (("start_line", model.Entry(b.entry_type, b.key, copy.deepcopy(b.fields), (b.start_line or 0) + 1, b.raw)),
                       ("raw", model.Entry(b.entry_type, b.key, copy.deepcopy(b.fields), b.start_line, (b.raw or "") + " "))):
            yield lab, o
            o2 = copy.deepcopy(o)
            o2.parser_metadata.update(copy.deepcopy(b.parser_metadata))     # the same difference between blocks that both carry metadata
            yield lab + "+metadata", o2
    elif c == "String":
        o = cp(); o.value = b.value + "x"; yield "value", o
        for lab, o in (("start_line", model.String(b.key, b.value, (b.start_line or 0) + 1, b.raw)),
                       ("raw", model.String(b.key, b.value, b.start_line, (b.raw or "") + " "))):
            yield lab, o
            o2 = copy.deepcopy(o)
            o2.parser_metadata.update(copy.deepcopy(b.parser_metadata))
            yield lab + "+metadata", o2
    elif c == "Preamble":
        o = cp(); o.value = b.value + "x"; yield "value", o
        yield "start_line", model.Preamble(b.value, (b.start_line or 0) + 1, b.raw)
        yield "raw", model.Preamble(b.value, b.start_line, (b.raw or "") + " ")
    else:
        cls = type(b)
        other = model.ImplicitComment if c == "ExplicitComment" else model.ExplicitComment
        o = cp(); o.comment = b.comment + "x"; yield "comment", o
        yield "start_line", cls(b.comment, (b.start_line or 0) + 1, b.raw)
        yield "raw", cls(b.comment, b.start_line, (b.raw or "") + " ")
        yield "class", other(b.comment, b.start_line, b.raw)


def run(chk: core.Check):
    bib = core.import_repo()
    model = bib.model
    rnd = random.Random(chk.seed)
    chk.extra["rule"] = ("T2: every edge of the complete Entry graph over keys {a,A,b} x values {1,2} "
                         "(state = field list; non-trivial = distinct (state, op) pair) and every equality "
                         "perturbation pair; T3: random histories on parsed entries and perturbed parsed blocks")

    # ---- T1 + T2: mapping -------------------------------------------------
    res = core.run_tlc("MC_Entry", CFG)
    chk.add_tlc(res, "MC_Entry complete graph, invariants InvRefines/InvViews/InvDistinct")
    n = 0
    for edge in res.json_lines():
        n += 1
        obs = replay_edge(edge, model)
        chk.note_case(("edge", core.canon(edge["s"]), core.canon(edge["i"])))
        for clause, key in (("result", "r"), ("fields", "t"), ("fields_dict", "d"), ("items", "it")):
            chk.clause("T2." + clause)
            if obs[key] != edge[key]:
                chk.mismatch(clause, {"kind": "edge", "state": edge["s"], "op": edge["i"]}, obs[key], edge[key],
                             spec={"module": "Entry", "operator": "Step"}, kind="entry_edge")
                break
        chk.sample({"state": edge["s"], "op": edge["i"], "result": edge["r"], "fields_after": edge["t"]})
    chk.traces += n
    chk.exhaustive = True
    if n != res.generated - res.distinct and n == 0:
        raise core.MachineryError("MC_Entry exported nothing")

    # ---- T1 + T2: equality ------------------------------------------------
    res = core.run_tlc("MC_EntryEq", CFG_EQ)
    chk.add_tlc(res, "MC_EntryEq perturbation pairs, invariant InvEq")
    for pair in res.json_lines():
        x, y = build_obj(pair["x"], model), build_obj(pair["y"], model)
        obs = {"eq": x == y, "ne": x != y, "eq_rev": y == x}
        want = {"eq": pair["eq"], "ne": not pair["eq"], "eq_rev": pair["eq"]}
        chk.note_case(("eq", core.canon(pair["x"]), core.canon(pair["y"])))
        chk.clause("T2.equality")
        chk.traces += 1
        if obs != want:
            chk.mismatch("equality", {"kind": "eq", "x": pair["x"], "y": pair["y"], "what": pair["what"]},
                         obs, want, spec={"module": "Entry", "operator": "Eq"}, kind="eq_pair")
        # copy / deepcopy of x compare equal to x
        for how, cp in (("copy", copy.copy(x)), ("deepcopy", copy.deepcopy(x))):
            chk.clause("T2.copy_equal")
            if not (cp == x and x == cp and not (cp != x)):
                chk.mismatch("copy_equal", {"kind": "eq", "x": pair["x"], "y": pair["x"], "what": how},
                             {"eq": cp == x}, {"eq": True}, kind="eq_pair")

    # ---- T3: random histories on parsed entries ----------------------------
    ncases = 60 if chk.tier == "quick" else 600
    pool = ["a", "A", "b", "B", "c", "title", "Title", "year", "ß", "ss", "SS", "ſ", "id", "Id", "entrytype", "EntryType", "iD"]
    vals = ["1", "2", "x y", "{z}", "", "7#int", "2020#int", "2.5#float", "None#NoneType", "0#int"]
    cases = []
    for cid in range(ncases):
        nf = rnd.randint(0, 5)
        keys = rnd.sample(pool, nf)
        text = "@article{key%d,\n%s}\n" % (cid, ",\n".join("  %s = {%s}" % (k, rnd.choice(vals)) for k in keys))
        if nf == 0 and cid % 3:
            text = "@article{key%d}\n" % cid             # an entry written without comma and fields
        text += "@misc{by%d}\n@misc{by%db,}\n" % (cid, cid)  # bystanders: entries nobody operates on
        try:
            lib = bib.parse_string(text)
        except Exception as ex:  # noqa: the text is plain and well-formed; an exception here comes from state left by earlier histories
            chk.mismatch("bystander_views", {"kind": "history", "case": {"id": cid, "text": text}, "bystander": "a later parse"},
                         f"parse_string raised {type(ex).__name__}: {ex}", "entries of a new parse start from the text alone", kind="entry_history")
            continue
        if len(lib.entries) != 3:
            raise core.MachineryError("C19 generator produced an unparsable entry: " + text)
        e = lib.entries[0]
        bystanders = [("entry of the same document", b, []) for b in lib.entries[1:]]
        if cid % 2:
            # the entry has been through the shipped middlewares before (their metadata is on it) and was edited since:
            # a mapping operation must not depend on that
            keep = [(f.key, f.value, f.start_line) for f in e.fields]
            mws = bib.middlewares
            for mw in (mws.SortFieldsAlphabeticallyMiddleware(), mws.SortFieldsCustomMiddleware(order=("b", "a")), mws.NormalizeFieldKeys(),
                       mws.MonthIntMiddleware(), mws.AddEnclosingMiddleware(reuse_previous_enclosing=True, enclose_integers=False, default_enclosing="{")):
                lib = mw.transform(lib)
            e = lib.entries[0]
            e.fields = [model.Field(k0, v0, l0) for k0, v0, l0 in keep]
            bystanders = [("entry of the same document", b, []) for b in lib.entries[1:]]
        case = {"id": cid, "ety": e.entry_type, "eid": e.key, "init": proj_fields(e.fields), "ev": []}
        depth = rnd.choice([30, 60, 200]) if chk.tier == "thorough" else rnd.choice([30, 60])
        for _ in range(depth):
            # (a shallow copy shares its Field objects with the entry, so assigning a key there would reach into the copy:
            # histories with renames take deep copies only)
            renames = cid % 2 == 0
            o = rnd.choice(["set_field", "setitem", "pop", "delitem", "get", "contains", "getitem", "getitem", "rename" if renames else "get", "copy"])
            if o == "copy":
                # not an event of the history: somebody takes a (shallow or deep) copy and keeps it; whatever happens to
                # the entry afterwards, the copy's three views keep describing the same fields in the same order
                if len(bystanders) < 6:
                    c0 = copy.copy(e) if (rnd.random() < 0.7 and not renames) else copy.deepcopy(e)
                    bystanders.append(("copy taken at step %d" % len(case["ev"]), c0, None))
                continue
            k = rnd.choice(pool + (["ENTRYTYPE", "ID"] if o == "getitem" else []))
            op = {"op": o, "k": k, "v": (rnd.choice(vals) + ("~" if o == "setitem" else "")) if o in ("set_field", "setitem") else "-"}
            if o == "rename":
                held = [f.key for f in e.fields]
                free = [x for x in pool + ["new"] if x not in held]
                if not held or not free:
                    continue
                op = {"op": "rename", "k": rnd.choice(held), "v": rnd.choice(free)}
            r = apply_op(e, op, model)
            for what, b, want_fields in bystanders:
                fk = [f.key for f in b.fields]
                dk = list(b.fields_dict.keys())
                ik = [k2 for k2, _ in list(b.items())[2:]]
                if not (fk == dk == ik) or (want_fields is not None and fk != want_fields) \
                        or any(b.fields_dict[x] is not f for x, f in zip(fk, b.fields)):
                    chk.mismatch("bystander_views", {"kind": "history", "case": {**case, "ev": case["ev"] + [dict(op)]}, "bystander": what},
                                 {"fields": fk, "fields_dict": dk, "items": ik}, "the three views agree" + (" and stay empty" if want_fields == [] else ""),
                                 spec={"module": "Entry", "operator": "ViewsAgree"}, kind="entry_history")
                    bystanders = [x for x in bystanders if x[1] is not b]
            ev = dict(op)
            ev["r"] = r
            ev.update(observe(e))
            case["ev"].append(ev)
        cases.append(case)
        # ... and an entry parsed afterwards from the same kind of text starts empty
        try:
            later = bib.parse_string("@misc{later%d}\n@misc{later%db,}" % (cid, cid)).entries
        except Exception as ex:  # noqa
            chk.mismatch("bystander_views", {"kind": "history", "case": case, "bystander": "entry parsed afterwards"},
                         f"parse_string raised {type(ex).__name__}: {ex}", "an entry written without fields has none", kind="entry_history")
            later = []
        for b in later:
            if b.fields or b.fields_dict or len(list(b.items())) != 2:
                chk.mismatch("bystander_views", {"kind": "history", "case": case, "bystander": "entry parsed afterwards"},
                             {"fields": [f.key for f in b.fields]}, "an entry written without fields has none", kind="entry_history")
    rejects, results = core.validate_traces("Trace_Entry", cases, shards=8)
    for r in results:
        chk.add_tlc(r, "Trace_Entry shard", count_states=False)
    chk.traces += len(cases) - len(rejects)
    chk.clause("T3.history_events", sum(len(c["ev"]) for c in cases))
    byid = {c["id"]: c for c in cases}
    for rj in rejects:
        c = byid[rj["reject"]]
        ev = c["ev"][rj["at"] - 1]
        chk.mismatch(rj["clause"], {"kind": "history", "case": {**c, "ev": c["ev"][:rj["at"]]}},
                     {k: ev[k] for k in ("r", "t", "d", "it")}, rj["expected"],
                     spec={"module": "Trace_Entry", "operator": "Next"}, kind="entry_history")
    for c in cases:
        chk.note_case(("hist", c["id"], len(c["ev"])))

    # ---- T3: equality on parsed blocks -------------------------------------
    try:
        lib = bib.parse_string(SAMPLE_DOC)
    except Exception as ex:  # noqa: a plain, well-formed document; an exception here comes from state the histories above left behind
        chk.mismatch("bystander_views", {"kind": "history", "case": {"text": SAMPLE_DOC[:200]}, "bystander": "a later parse of another document"},
                     f"parse_string raised {type(ex).__name__}: {ex}", "a parse depends on its text alone", kind="entry_history")
        return
    pairs = []
    objs = [b for b in lib.blocks if not isinstance(b, model.ParsingFailedBlock)]
    objs += [f for b in lib.entries for f in b.fields]
    # entries held inside failed blocks (duplicate key, duplicate field key) are entries like any other
    lib_d = bib.parse_string("@a{k, f = 1, f = 2, g = 3}\n@a{k2, x = {y}}\n@a{k2, x = {z}}\n@string{s = 1}\n@string{s = 2}", parse_stack=[])
    objs += [b.ignore_error_block for b in lib_d.failed_blocks if b.ignore_error_block is not None]
    raw_lib = bib.parse_string(SAMPLE_DOC, parse_stack=[])          # blocks no middleware has touched
    objs += [b for b in raw_lib.blocks if not isinstance(b, model.ParsingFailedBlock)]
    pid = 0
    for b in objs:
        for how, o in (("copy", copy.copy(b)), ("deepcopy", copy.deepcopy(b)), ("self", b)):
            # the verdicts are taken BEFORE the projection reads anything, and after READING (not changing) one side only:
            # looking at a block must not change what it is equal to
            if hasattr(b, "parser_metadata"):
                b.parser_metadata.get("x")
                b.get_parser_metadata("x")
            if hasattr(b, "fields"):
                list(b.items()), b.fields_dict
            verdicts = {"eq": b == o, "ne": b != o, "eq_rev": o == b}
            pairs.append({"id": pid, "what": how, "x": proj_obj(b, model), "y": proj_obj(o, model), **verdicts}); pid += 1
        for lab, o in perturbations(b, model, rnd):
            x, y = o if isinstance(o, tuple) else (b, o)
            pairs.append({"id": pid, "what": lab, "x": proj_obj(x, model), "y": proj_obj(y, model),
                          "eq": x == y, "ne": x != y, "eq_rev": y == x}); pid += 1
    for a in objs:  # all cross pairs of distinct parsed objects
        for b in objs:
            pairs.append({"id": pid, "what": "cross", "x": proj_obj(a, model), "y": proj_obj(b, model),
                          "eq": a == b, "ne": a != b, "eq_rev": b == a}); pid += 1
    rejects, results = core.validate_traces("Trace_EntryEq", pairs, shards=2)
    for r in results:
        chk.add_tlc(r, "Trace_EntryEq shard", count_states=False)
    chk.traces += len(pairs) - len(rejects)
    chk.clause("T3.equality_pairs", len(pairs))
    byid = {p["id"]: p for p in pairs}
    for rj in rejects:
        p = byid[rj["reject"]]
        chk.mismatch("equality:" + rj["clause"], {"kind": "eq", "x": p["x"], "y": p["y"], "what": p["what"]},
                     {"eq": p["eq"], "ne": p["ne"], "eq_rev": p["eq_rev"]}, rj["expected"], kind="eq_pair")
    chk.assumptions += ["field keys distinct and not ENTRYTYPE/ID (precondition of the property)",
                        "del of a missing key compared by resulting state only",
                        "projection reads public attributes only (key, value, start_line, raw, parser_metadata, ...)"]


def replay(rec, chk):
    bib = core.import_repo()
    model = bib.model
    inp = rec["input"]
    if inp["kind"] == "edge":
        edge = {"s": inp["state"], "i": inp["op"]}
        obs = replay_edge(edge, model)
        key = {"result": "r", "fields": "t", "fields_dict": "d", "items": "it"}[rec["clause"]]
        return obs[key], rec["expected"], obs[key] == rec["expected"]
    if inp["kind"] == "eq":
        x, y = build_obj(inp["x"], model), build_obj(inp["y"], model)
        obs = {"eq": x == y}
        return obs, rec["expected"], obs["eq"] == rec["expected"].get("eq")
    if inp["kind"] == "history":
        c = inp["case"]
        e = model.Entry(c["ety"], c["eid"], [model.Field(f["k"], f["v"]) for f in c["init"]])
        last = None
        for ev in c["ev"]:
            r = apply_op(e, ev, model)
            last = dict(observe(e), r=r)
        exp = rec["expected"]
        ok = last["r"] == exp["r"] and last["t"] == exp["t"]
        return last, exp, ok
    raise core.MachineryError("unknown replay kind")
