"""C02 — well-formed BibTeX yields exactly the blocks, keys, fields and values written.

T1:  MC_Splitter invariant InvGrammar: for every explored input that BibGrammar!Recognise accepts, the scanner's
     blocks equal the grammar's blocks and none is failed.
T2:  the explored inputs replayed into Splitter.split; a difference on a recognised input is a C02 violation.
T3:  constructive enumeration (templates x value pool x whitespace x commas x gaps) and seeded random derivations
     (1-40 blocks), each with generator-side ground truth: TLC checks Recognise(src).ok, Recognise = Run (spec),
     the harness compares the code (Splitter.split and parse_string(parse_stack=[])) with spec and ground truth.
"""
from __future__ import annotations

import random

from .. import core, docgen, splitpipe

MINE = ("raised", "tiling", "blocks", "content", "failed_carry", "failed_range")


def report(chk, text, clause, detail, obs, exp, how):
    chk.mismatch(clause, {"kind": "text", "text": text if len(text) < 6000 else None, "text_head": text[:300], "how": how},
                 {"detail": detail, "blocks": [[o["cls"], (o["raw"] or "")[:60]] for o in obs[:12]]},
                 {"blocks": [[e["cls"], e.get("raw", "")[:60]] for e in exp[:12]]},
                 spec={"module": "BibGrammar", "operator": "Recognise"}, kind="text")


def run(chk: core.Check):
    bib = core.import_repo()
    rnd = random.Random(chk.seed + 2)
    chk.extra["rule"] = ("T2: token sequences of MC_Splitter accepted by the grammar recogniser; T3: constructive product of "
                         "block templates x 25 values x 7 whitespace choices x commas x gaps, plus random derivations; "
                         "non-trivial = distinct recognised document")
    if chk.tier == "quick":
        runs = [(3, range(1, splitpipe.NPREFIX + 1), 2)]
        nrand, ncons, maxb = 1500, 1500, 12
    else:
        runs = [(4, range(1, splitpipe.NPREFIX + 1), 3)]
        nrand, ncons, maxb = 20000, None, 40
    for maxsuffix, prefixes, nvar in runs:
        recs, counters, _ = splitpipe.t2(chk, bib, maxsuffix, prefixes, nvar, grammar=True)
        for k, v in counters.items():
            chk.extra[k] = chk.extra.get(k, 0) + v
        if counters["t2_runs_on_dialect_inputs"] == 0:
            raise core.MachineryError("C02 is vacuous: no explored input is in the dialect")
        chk.clause("T2.dialect_input(blocks,content,no failed block)", counters["t2_runs_on_dialect_inputs"])
        for r in recs:
            if r["grammar"]["ok"]:
                mine = [c for c in MINE if c in r["diff"]]
                if mine:
                    report(chk, r["text"], mine[0], r["diff"][mine[0]], r["obs"], r["exp"], "split")
    chk.exhaustive = True
    docs = list(docgen.constructive(ncons)) + [docgen.random_doc(rnd, rnd.randint(1, maxb)) for _ in range(nrand)]
    # "nesting of braces" has no bound in the grammar: groups nested deeper than CPython's recursion limit
    for depth in (40, 1500):
        deep = "{" * depth + "x" + "}" * depth
        d = docgen.Doc()
        docgen.gen_entry(d, rnd, "deep%d" % depth, fields=[("a", deep), ("b", '"q ' + deep + ' r" # z')], ws=[" "])
        d.add("\n")
        docgen.gen_string(d, rnd, "sdeep%d" % depth, deep, ws=[" "])
        d.add("\n")
        docs.append(d)
    for how in ("split", "parse0"):
        recs = splitpipe.t3(chk, bib, [d.text for d in docs], how=how, grammar=True)
        for d, r in zip(docs, recs):
            g = r["grammar"]
            if not g["ok"] or not g["same"]:
                raise core.MachineryError("generator, grammar and scanner specification disagree (R5) on "
                                          + repr(d.text[:300]) + f" grammar={g}")
            if r["raised"]:
                report(chk, d.text, "raised", r["raised"], [], r["exp"], how)
                continue
            # specification vs ground truth (machinery self-check), then code vs both
            spec_as_obs = [dict(e, fields=[f[:3] for f in e.get("fields", [])]) for e in r["exp"]]
            sd = docgen.truth_diff(d.truth, spec_as_obs)
            sd.pop("start_line", None) if False else None
            if sd:
                raise core.MachineryError(f"specification and generator ground truth disagree (R5): {sd} on {d.text[:300]!r}")
            td = docgen.truth_diff(d.truth, r["obs"]) if not r["diff"].get("tiling") else {"tiling": r["diff"]["tiling"]}
            both = dict(td)
            for c in MINE:
                if c in r["diff"]:
                    both.setdefault(c, r["diff"][c])
            mine = [c for c in MINE if c in both]
            if mine:
                report(chk, d.text, mine[0], both[mine[0]], r["obs"], r["exp"], how)
            chk.note_case(d.text)
        chk.clause(f"T3.{how}(truth,spec,code agree)", len(docs))
    # "one block per source block in source order with no failed block" also holds for what the DEFAULT stack returns
    # (values are transformed there and not compared; classes, keys and field keys are)
    recs = splitpipe.t3(chk, bib, [d.text for d in docs], how="default", grammar=True)
    for d, r in zip(docs, recs):
        if r["raised"]:
            report(chk, d.text, "raised", r["raised"], [], r["exp"], "default")
        elif "blocks" in r["diff"]:
            report(chk, d.text, "blocks", r["diff"]["blocks"], r["obs"], r["exp"], "default")
        else:
            keys_obs = [[o.get("cls"), o.get("key"), [f[0] for f in o.get("fields", [])]] for o in r["obs"]]
            keys_exp = [[e.get("cls"), e.get("key"), [f[0] for f in e.get("fields", [])]] for e in r["exp"]]
            if keys_obs != keys_exp:
                i = next((j for j, (a, b) in enumerate(zip(keys_obs, keys_exp)) if a != b), min(len(keys_obs), len(keys_exp)))
                report(chk, d.text, "blocks", f"block {i + 1}: {keys_obs[i] if i < len(keys_obs) else 'missing'} expected "
                                              f"{keys_exp[i] if i < len(keys_exp) else 'nothing'}", r["obs"], r["exp"], "default")
    chk.clause("T3.default(one block per source block, classes, keys, field keys)", len(docs))
    # the same texts once more with an EMPTY stack, after the default stack has worked on them: verbatim values are a
    # function of the text, not of what an earlier call did with the blocks it got
    again = docs[:300]
    recs = splitpipe.t3(chk, bib, [d.text for d in again], how="parse0_after_default", grammar=True)
    for d, r in zip(again, recs):
        if r["raised"]:
            report(chk, d.text, "raised", r["raised"], [], r["exp"], "parse0 after default")
            continue
        td = docgen.truth_diff(d.truth, r["obs"]) if not r["diff"].get("tiling") else {"tiling": r["diff"]["tiling"]}
        both = dict(td)
        for c in MINE:
            if c in r["diff"]:
                both.setdefault(c, r["diff"][c])
        mine = [c for c in MINE if c in both]
        if mine:
            report(chk, d.text, mine[0], both[mine[0]], r["obs"], r["exp"], "parse0 after default")
    chk.clause("T3.parse0_again_after_default", len(again))
    chk.sample({"document": docs[-1].text[:400], "truth": [[t["cls"], t.get("key", "")] for t in docs[-1].truth[:8]]})
    chk.assumptions += ["the dialect is the grammar of DESIGN 3.3 (BibGrammar.tla); keys of entries/strings pairwise distinct",
                        "start lines and field lines are C03's subject and not reported here"]


def replay(rec, chk):
    bib = core.import_repo()
    from .. import splitobs
    text = rec["input"]["text"]
    how = rec["input"].get("how", "split")
    recs, _ = splitobs.evaluate(bib, [text], how=how, grammar=True)
    d = {k: v for k, v in recs[0]["diff"].items() if k in MINE}
    return d, rec["expected"], not d
