"""X01 (spec growth, not a listed property) - parse_single_name_into_parts(strict=False): the repairs of the lenient mode.

T1: MC_NameLenient: on every valid name lenient = strict (InvAgrees); after the repairs every word is brace-balanced.
T2: every name of <= MaxLen character tokens replayed with strict=False: never raises, parts = NameParseLenient!LParse
    (words rendered with the inserted braces).
Differences are reported as NOTE lines and in evidence/X01.json; this check is not registered in MANIFEST.json and never
prints VIOLATION for a listed property.
"""
from __future__ import annotations

import random

from .. import core
from . import c13

LEVEL = "model_checking"


def render(text, spans, part):
    out = []
    for w in part:
        body = text[spans[w["r"][0] - 1][0]:spans[w["r"][1] - 2][1]]
        out.append("{" * w["pre"] + body + "}" * w["post"])
    return out


_G = {}


def _chunk(lines):
    bib = _G["bib"]
    f = bib.middlewares.names.parse_single_name_into_parts
    res = {"n": 0, "diff": []}
    for line in lines:
        e = core.parse_export(line)
        rnd = random.Random(hash((_G["seed"], tuple(e["s"]))) & 0xFFFFFFFF)
        for v in range(2):
            pieces = [c13.SPELL[t][0] if v == 0 else rnd.choice(c13.SPELL[t]) for t in e["s"]]
            text = "".join(pieces)
            spans, pos = [], 0
            for p in pieces:
                spans.append((pos, pos + len(p)))
                pos += len(p)
            res["n"] += 1
            want = {k: render(text, spans, e["r"]["parts"][k]) for k in ("first", "von", "last", "jr")}
            try:
                p = f(text, strict=False)
                got = {"first": list(p.first), "von": list(p.von), "last": list(p.last), "jr": list(p.jr)}
            except Exception as ex:  # noqa
                got = f"{type(ex).__name__}: {ex}"
            if got != want and len(res["diff"]) < 20:
                res["diff"].append({"name": text, "observed": got, "expected": want})
    return res


def run(chk: core.Check):
    bib = core.import_repo()
    maxlen = 5 if chk.tier == "quick" else 6
    res = core.run_tlc("MC_NameLenient", f"INIT Init\nNEXT Next\nCONSTANT MaxLen = {maxlen}\nINVARIANT InvAgrees\nINVARIANT InvBalanced\n"
                                         "CHECK_DEADLOCK FALSE\n", timeout=3000, heap="16g")
    chk.add_tlc(res, f"MC_NameLenient MaxLen={maxlen}: InvAgrees, InvBalanced")
    _G.update(bib=bib, seed=chk.seed)
    lines = list(res.raw_lines())
    outs = core.pmap(_chunk, core.chunks(lines, len(lines) // 64 + 1))
    n = sum(o["n"] for o in outs)
    diffs = [d for o in outs for d in o["diff"]]
    chk.traces += n
    chk.evaluations += n
    chk.nontrivial.update(range(res.exported))
    chk.clause("T2.lenient_parse", n)
    chk.exhaustive = True
    chk.extra["rule"] = f"every name of <= {maxlen} character tokens over 11 classes, 2 spellings, strict=False"
    chk.extra["differences_from_specification"] = len(diffs)
    chk.extra["first_differences"] = diffs[:5]
    chk.sample(diffs[0] if diffs else {"name": "A } b", "note": "lenient parse conforms on every explored name"})
    for d in diffs[:5]:
        print(f"NOTE X01 lenient name parsing differs from NameParseLenient.tla: {d['name']!r} -> {d['observed']} (spec {d['expected']})")
    chk.assumptions += ["spec growth: not a listed property; differences are notes, not violations"]


def replay(rec, chk):
    raise core.MachineryError("X01 has no replays")
