"""X02 (spec growth, not a listed property) - parsing a second document INTO an existing library
(parse_string(doc2, library=lib1)), the Library(blocks=...) constructor, and first-name-first merging.

T3: random pairs of documents with keys from a small pool; TLC (Oracle_TwoDocs) continues Library!AddLoop over the blocks
    of the second document and prints what sits at every position; compared with the real library position by position.
Differences are NOTE lines and evidence only; never a VIOLATION of a listed property.
"""
from __future__ import annotations

import random

from .. import bibtok, core, docgen
from . import c09


def joint_tokens(d1, d2):
    t1, t2 = bibtok.alpha(d1), bibtok.alpha(d2)
    ids = {}
    k, w = [], []
    for text, toks in ((d1, t1), (d2, t2)):
        for t in toks:
            k.append(t.k)
            w.append(ids.setdefault(text[t.s:t.e], len(ids) + 1))
    return k, w, len(t1) + 1


def run(chk: core.Check):
    bib = core.import_repo()
    M = bib.model
    rnd = random.Random(chk.seed + 102)
    n = 400 if chk.tier == "quick" else 6000
    pool = ["k1", "k2", "K1"]
    cases, docs = [], []
    for cid in range(n):
        pair = []
        for _ in range(2):
            d = docgen.Doc()
            for j in range(rnd.randint(0, 4)):
                r = rnd.random()
                if r < 0.6:
                    docgen.gen_entry(d, rnd, rnd.choice(pool), fields=[(rnd.choice(["f", "g"]), rnd.choice(docgen.VALUES)) for _ in range(rnd.randint(0, 2))])
                elif r < 0.85:
                    docgen.gen_string(d, rnd, rnd.choice(pool))
                else:
                    docgen.gen_comment(d, rnd)
                d.add("\n")
            pair.append(d.text)
        k, w, cut = joint_tokens(*pair)
        cases.append({"id": cid, "k": k, "w": w, "cut": cut})
        docs.append(pair)
    v = core.validate_traces("Oracle_TwoDocs", cases, shards=8)
    for r in v.results:
        chk.add_tlc(r, "Oracle_TwoDocs shard")
    byid = {x["id"]: x for x in v.notes if "id" in x}
    diffs = []
    for cid, (d1, d2) in enumerate(docs):
        r = byid[cid]
        if not r["consistent"]:
            raise core.MachineryError("composed library inconsistent in the specification (R5)")
        lib = bib.parse_string(d1, parse_stack=[])
        lib = bib.parse_string(d2, parse_stack=[], library=lib)
        ol = c09.observe_lib(lib, M)
        want = [b["w"] for b in r["blocks"]]
        got = [b["w"] for b in ol["blocks"]]
        prev_w = [b["prev"] for b in r["blocks"] if b["w"]]
        prev_g = [b["prev"] for b in ol["blocks"] if b["w"]]
        ok = got == want and prev_g == prev_w and ol["live_entries"] == sorted(r["live_entries"]) and ol["live_strings"] == sorted(r["live_strings"])
        # the constructor: Library(blocks) of the same blocks behaves like adding them in order
        if ok and cid % 5 == 0:
            plain = [b.ignore_error_block if isinstance(b, M.DuplicateBlockKeyBlock) else b for b in lib.blocks]
            lib2 = bib.Library(plain)
            ok = [isinstance(b, M.DuplicateBlockKeyBlock) for b in lib2.blocks] == want
        if not ok and len(diffs) < 10:
            diffs.append({"doc1": d1, "doc2": d2, "observed": got, "expected": want})
    # first-name-first merge: the words of first, von, last, jr in that order joined by single blanks (NameMerge!MergeFirstFirst)
    NP = bib.middlewares.NameParts
    for _ in range(200):
        parts = {k: [rnd.choice(["A", "bb", "{C d}", "e."]) for _ in range(rnd.randint(0, 2))] for k in ("first", "von", "last", "jr")}
        want = " ".join(w for k in ("first", "von", "last", "jr") for w in parts[k])
        got = NP(**parts).merge_first_name_first
        if got != want and len(diffs) < 10:
            diffs.append({"parts": parts, "observed": got, "expected": want})
    chk.traces += len(docs) + 200
    chk.evaluations += len(docs) + 200
    chk.nontrivial.update(range(len(docs)))
    chk.clause("T3.two_documents_into_one_library", len(docs))
    chk.clause("T3.merge_first_name_first", 200)
    chk.extra["rule"] = "random pairs of documents with keys from a pool of 3; NameParts with 0-2 words per part"
    chk.extra["differences_from_specification"] = len(diffs)
    chk.extra["first_differences"] = diffs[:3]
    chk.sample(diffs[0] if diffs else {"doc1": docs[0][0][:120], "doc2": docs[0][1][:120], "positions": byid[0]["blocks"]})
    for d in diffs[:5]:
        print("NOTE X02 differs from the specification:", str(d)[:300])
    chk.assumptions += ["spec growth: not a listed property; differences are notes, not violations"]


def replay(rec, chk):
    raise core.MachineryError("X02 has no replays")
