"""C20 — entry points apply exactly the requested middleware stack, in order.

T1:  MC_Entrypoints: every configuration (stack of 0..MaxStack middlewares in each argument position x container kind;
     both arguments; splice result kinds x block types): InvOrder, InvBoth.
T2:  every configuration replayed on parse_string / write_string with probe middlewares (the probe log makes the order
     of application observable, the number of brace layers shows where the default stack ran); splice probes on
     BlockMiddleware.transform; file clauses on real temporary files (4 encodings, path and file-object targets).
"""
from __future__ import annotations

import io
import os
import shutil
import tempfile

from .. import core

DOC = "@article{k,\n  title = {x},\n  month = 3\n}\n"


def make_probes(bib):
    mw = bib.middlewares

    class BlockProbe(mw.BlockMiddleware):
        def __init__(self, name):
            super().__init__(allow_inplace_modification=True)
            self.name = name

        def transform(self, library):
            self.calls = getattr(self, "calls", 0) + 1
            return super().transform(library)

        def transform_entry(self, entry, library):
            t = entry["title"] if "title" in entry else ""
            layers = len(t) - len(t.lstrip("{")) if isinstance(t, str) else -1
            entry.parser_metadata.setdefault("verif_log", []).append([self.name, layers])
            return None if self.name == "DR" else entry

    class LibProbe(mw.LibraryMiddleware):
        def __init__(self, name):
            super().__init__(allow_inplace_modification=True)
            self.name = name

        def transform(self, library):
            self.calls = getattr(self, "calls", 0) + 1
            for entry in library.entries:
                t = entry["title"]
                layers = len(t) - len(t.lstrip("{"))
                entry.parser_metadata.setdefault("verif_log", []).append([self.name, layers])
            return library
    return BlockProbe, LibProbe


def build(bib, names, BlockProbe, LibProbe, ct):
    if names == ["None"]:
        return None
    mw = bib.middlewares
    out = []
    for n in names:
        if n in ("P1", "P2", "P3", "DR"):
            out.append(BlockProbe(n))
        elif n == "L1":
            out.append(LibProbe(n))
        elif n == "MI":
            out.append(mw.MonthIntMiddleware())
        elif n == "RE":
            out.append(mw.RemoveEnclosingMiddleware())
        elif n == "RS":
            out.append(mw.ResolveStringReferencesMiddleware())
        elif n == "AE":
            out.append(mw.AddEnclosingMiddleware(reuse_previous_enclosing=False, enclose_integers=True, default_enclosing="{",
                                                 allow_inplace_modification=False))
        else:
            raise core.MachineryError(n)
    return {"list": list, "tuple": tuple, "iter": iter}[ct](out)


def observe_lib(lib, i=0):
    return observe_entry(lib.entries[i]) if len(lib.entries) > i else {"live": False}


def want_entry(w):
    if not w["live"]:
        return {"live": False}
    return {"layers": w["layers"], "log": [list(x) for x in w["log"]], "mint": w["mint"]}


DOC3 = DOC + "\n@article{k, title = {y}, month = 4}\n% c\r\n@article{pre,\r\n title = {{z}}, month = 5}\n@string{s = {v}}\n@string{s = \"w\"}\n@article{pre, title = {q}, month = 6}\n"


def shape(lib, M):
    """blocks of a library as comparable data: class, key, for duplicate wrappers the position of the block they refer to."""
    out = []
    for b in lib.blocks:
        d = {"cls": type(b).__name__, "key": getattr(b, "key", None), "raw": b.raw}
        if isinstance(b, M.DuplicateBlockKeyBlock):
            d["prev"] = next((i for i, x in enumerate(lib.blocks) if x is b.previous_block), -1)
            b = b.ignore_error_block
        if isinstance(b, M.Entry):
            d["fields"] = [[f.key, f.value] for f in b.fields]
            d["log"] = b.parser_metadata.get("verif_log", [])
        elif isinstance(b, M.String):
            d["value"] = b.value
        out.append(d)
    return out


def by_hand(bib, stack_names, BlockProbe, LibProbe, with_library):
    """'parse_string equals splitting followed by the given stack': the right-hand side, literally."""
    M = bib.model
    lib0 = bib.Library([M.Entry("article", "pre", [M.Field("title", "{{x}}"), M.Field("month", "3")], raw="r0")]) if with_library else None
    lib = bib.splitter.Splitter(DOC3).split(library=lib0) if with_library else bib.splitter.Splitter(DOC3).split()
    for m in build(bib, stack_names, BlockProbe, LibProbe, "list") or []:
        lib = m.transform(lib)
    return shape(lib, M)


def observe_entry(e):
    t = e["title"]
    return {"layers": len(t) - len(t.lstrip("{")), "log": e.parser_metadata.get("verif_log", []),
            "mint": isinstance(e["month"], int)}


def run_cfg(bib, c, BlockProbe, LibProbe):
    M = bib.model
    if c["side"] == "parse":
        try:
            lib = bib.parse_string(DOC, parse_stack=build(bib, c["ps"], BlockProbe, LibProbe, c["ct"]),
                                   append_middleware=build(bib, c["app"], BlockProbe, LibProbe, c["ct"]))
        except ValueError:
            # ... whatever the text is: an empty document is no excuse for accepting both arguments
            try:
                bib.parse_string("", parse_stack=build(bib, c["ps"], BlockProbe, LibProbe, c["ct"]),
                                 append_middleware=build(bib, c["app"], BlockProbe, LibProbe, c["ct"]))
                return {"err": "only for a non-empty document"}
            except ValueError:
                return {"err": True}
        except Exception as ex:  # noqa
            return {"err": "other", "exc": f"{type(ex).__name__}: {ex}"}
        out = {"err": False, "e": observe_lib(lib)}
        # the same call on documents without any block: the stack is built and run all the same (a library middleware is
        # called once per position; giving both arguments raises whatever the text is)
        for empty in ("", " \n\t\n"):
            ps2, app2 = build(bib, c["ps"], BlockProbe, LibProbe, c["ct"]), build(bib, c["app"], BlockProbe, LibProbe, c["ct"])
            keep = [m for m in (list(ps2) if isinstance(ps2, (list, tuple)) else []) + (list(app2) if isinstance(app2, (list, tuple)) else [])]
            try:
                bib.parse_string(empty, parse_stack=ps2, append_middleware=app2)
                calls = [getattr(m, "calls", 0) for m in keep if isinstance(m, (BlockProbe, LibProbe))]
                if any(x != 1 for x in calls):
                    out["empty_document"] = f"on an empty document the probes were called {calls} times"
            except Exception as ex:  # noqa
                out["empty_document"] = f"{type(ex).__name__}: {ex}"
        # the same call with library=<a library holding an earlier, untransformed entry>
        try:
            lib0 = bib.Library([M.Entry("article", "pre", [M.Field("title", "{{x}}"), M.Field("month", "3")])])
            lib = bib.parse_string(DOC, library=lib0, parse_stack=build(bib, c["ps"], BlockProbe, LibProbe, c["ct"]),
                                   append_middleware=build(bib, c["app"], BlockProbe, LibProbe, c["ct"]))
            keys = [e.key for e in lib.entries]
            out["into"] = {"keys": keys, "pre": observe_entry(lib.entries[0]), "e": observe_entry(lib.entries[1])} if keys == ["pre", "k"] else {"keys": keys}
            out["into"]["blocks"] = len(lib.blocks)
        except Exception as ex:  # noqa
            out["into"] = {"exc": f"{type(ex).__name__}: {ex}"}
        return out
    if c["side"] == "write":
        lib = bib.Library([M.Entry("article", "k", [M.Field("title", "x")])])
        try:
            text = bib.write_string(lib, unparse_stack=build(bib, c["ps"], BlockProbe, LibProbe, c["ct"]),
                                    prepend_middleware=build(bib, c["app"], BlockProbe, LibProbe, c["ct"]))
        except ValueError:
            return {"err": True}
        except Exception as ex:  # noqa
            return {"err": "other", "exc": f"{type(ex).__name__}: {ex}"}
        return {"err": False, "text": text}
    # splice
    mw = bib.middlewares
    blocks = {"c0": M.ImplicitComment("c0"), "e1": M.Entry("article", "e1", []), "s1": M.String("s1", "v"),
              "p1": M.Preamble("p1"), "f1": M.ParsingFailedBlock(error=Exception("x"), raw="f1"),
              "c1": M.ExplicitComment("c1"), "e2": M.Entry("book", "e2", [])}
    fresh = {"x1": lambda: M.ExplicitComment("x1"), "x2": lambda: M.Preamble("x2")}
    names = {}
    keep = []      # (keeps every fresh block alive so that ids stay unique)
    buf = []

    def result(kind, b):
        x1, x2 = fresh["x1"](), fresh["x2"]()
        names[id(x1)], names[id(x2)] = "x1", "x2"
        keep.extend([x1, x2])
        if kind == "reused_list":
            # the middleware answers with ONE list object that it refills on every call: each answer has to be read
            # before the next block is transformed
            buf.clear()
            buf.append(x1)
            return buf
        return {"none": None, "empty_list": [], "empty_tuple": (), "same": b, "other": x1, "list2": [x1, x2],
                "tuple2": (x1, x2), "list3": [x1, b, x2], "generator": (y for y in [x1]), "int": 7, "str": "abc",
                "list_with_nonblock": [x1, "abc"], "dict_of_str": {"a": x1}, "object": object()}[kind]

    class Splicer(mw.BlockMiddleware):
        def __init__(self):
            super().__init__(allow_inplace_modification=True)

    sp = Splicer()
    if c.get("level", "method") == "method":
        meth = {"entry": "transform_entry", "string": "transform_string", "preamble": "transform_preamble",
                "ecomment": "transform_explicit_comment", "icomment": "transform_implicit_comment"}[c["typ"]]
        setattr(sp, meth, lambda b, lib=None, *a, **k: result(c["kind"], b))
    else:
        cls = {"entry": M.Entry, "string": M.String, "preamble": M.Preamble, "ecomment": M.ExplicitComment,
               "icomment": M.ImplicitComment, "failed": M.ParsingFailedBlock}[c["typ"]]
        sp.transform_block = lambda b, lib=None, *a, **k: result(c["kind"], b) if isinstance(b, cls) else b
    order = ["c0", "e1", "s1", "p1", "f1", "c1", "e2"]
    lib = bib.Library([blocks[n] for n in order])
    for n in order:
        names[id(blocks[n])] = n
    try:
        out = sp.transform(lib)
    except TypeError:
        return {"err": True, "bs": []}
    except Exception as ex:  # noqa
        return {"err": "other", "exc": f"{type(ex).__name__}: {ex}"}
    bs = [names.get(id(b), "?" + type(b).__name__) for b in out.blocks]
    if len({id(b) for b in out.blocks}) != len(out.blocks):
        bs.append("<the same object at two positions>")
    return {"err": False, "bs": bs}


def files(chk, bib):
    """parse_file(path, encoding) = parse_string(decoded content); write_file writes exactly write_string's text."""
    BlockProbe, LibProbe = make_probes(bib)
    d = tempfile.mkdtemp(prefix="c20-", dir=core.scratch())
    docs = {"utf-8": "@article{k, title = {é ü ß}, month = 3}\n% ｆｕｌｌ\n", "latin-1": "@article{k, title = {é ü ß}}\ntext ñ\n",
            "gbk": "@article{k, title = {汉字 测试}}\n", "utf-16": "@book{b, title = {é 汉 x}, month = 3}\n"}
    n = 0
    # further files: a leading U+FEFF is content for every encoding but "utf-8-sig"/"utf-16"; CRLF; every high latin-1 byte
    more = [("utf-8", "\ufeff" + docs["utf-8"]), ("UTF-8", "\ufeff@article{k, title = {x}}\n"), ("utf8", "\ufeff% c\n@article{k, title = {x}}\n"),
            ("utf-8-sig", docs["utf-8"]), ("utf-16-le", "\ufeff" + docs["utf-16"]), ("utf-8", docs["utf-8"].replace("\n", "\r\n")),
            ("latin-1", "@article{k, title = {" + "".join(chr(c) for c in range(0xa0, 0x100)) + "}}\n"), ("ascii", "@article{k, title = {x}}\n"),
            ("utf-8", ""), ("utf-8", "\ufeff"),
            ("latin-1", "@article{k, title = {a\x85b\x0cc\x0bd\x1ce}}\n% x\x85y\n@book{b, t = {z}}\n"),
            ("utf-8", "@article{k, title = {a\u2028b\u2029c}}\n\u2028@book{b, t = {z}}\r@misc{m}\n"),
            ("utf-16", "@article{k, title = {a\u2028b\x0c}}\n@book{b, t = {z}}\n")]
    try:
        for fi, (enc, text) in enumerate(list(docs.items()) + more):
            path = os.path.join(d, f"in{fi}." + enc)
            with open(path, "wb") as fh:
                fh.write(text.encode(enc))
            with open(path, encoding=enc) as fh:
                decoded = fh.read()
            for variant in ("default", "stack", "append"):
                kw = {}
                if variant == "stack":
                    kw = {"parse_stack": [BlockProbe("P1")]}
                elif variant == "append":
                    kw = {"append_middleware": [BlockProbe("P1"), bib.middlewares.MonthIntMiddleware()]}
                n += 1
                try:
                    a = bib.parse_file(path, encoding=enc, **kw)
                    b = bib.parse_string(decoded, **{k: ([BlockProbe("P1")] if k == "parse_stack" else [BlockProbe("P1"), bib.middlewares.MonthIntMiddleware()]) for k in kw})
                    pa = [(type(x).__name__, x.raw, [(f.key, f.value) for f in getattr(x, "fields", [])], x.parser_metadata.get("verif_log")) for x in a.blocks]
                    pb = [(type(x).__name__, x.raw, [(f.key, f.value) for f in getattr(x, "fields", [])], x.parser_metadata.get("verif_log")) for x in b.blocks]
                    ok, obs = pa == pb, str(pa)[:300]
                except Exception as ex:  # noqa
                    ok, obs, pb = False, f"{type(ex).__name__}: {ex}", "parse_string of the decoded content"
                if not ok:
                    chk.mismatch("parse_file", {"kind": "file", "encoding": enc, "text": text, "variant": variant}, obs, str(pb)[:300], kind="file")
            if enc.lower() not in ("utf-8", "utf8"):
                continue
            # default encoding of parse_file is UTF-8
            n += 1
            try:
                ok = [x.raw for x in bib.parse_file(path).blocks] == [x.raw for x in bib.parse_string(decoded).blocks]
            except Exception as ex:  # noqa
                ok = False
            if not ok:
                chk.mismatch("parse_file", {"kind": "file", "encoding": "default", "text": text}, "differs", "UTF-8 default", kind="file")
        # parse_file refuses both stack arguments exactly as parse_string does
        n += 1
        p_both = os.path.join(d, "both.bib")
        with open(p_both, "w", encoding="utf-8") as fh:
            fh.write(docs["utf-8"])
        try:
            bib.parse_file(p_both, parse_stack=[BlockProbe("P1")], append_middleware=[BlockProbe("P2")])
            chk.mismatch("both_arguments_raise", {"kind": "file", "what": "parse_file(parse_stack=..., append_middleware=...)"}, "returned a library",
                         "ValueError", kind="file")
        except ValueError:
            pass
        except Exception as ex:  # noqa
            chk.mismatch("both_arguments_raise", {"kind": "file", "what": "parse_file(parse_stack=..., append_middleware=...)"},
                         f"{type(ex).__name__}: {ex}", "ValueError", kind="file")
        # write_string = stack first, THEN the writer (with everything the format asks of it) on what the stack returned:
        # value_column "auto" is computed from the keys the stack left
        n += 1
        M0 = bib.model

        class AddLongKey(bib.middlewares.BlockMiddleware):
            def __init__(self):
                super().__init__(allow_inplace_modification=False)

            def transform_entry(self, entry, library):
                entry.set_field(M0.Field("averyveryverylongfieldkeyaddedbythestack", "{v}"))
                return entry
        fa = bib.BibtexFormat()
        fa.value_column = "auto"
        lib_a = bib.Library([M0.Entry("article", "k", [M0.Field("a", "{1}"), M0.Field("title", "{t}")])])
        try:
            got_a = bib.write_string(lib_a, unparse_stack=[AddLongKey()], bibtex_format=fa)
            want_a = bib.writer.write(AddLongKey().transform(lib_a), fa)
            if got_a != want_a:
                chk.mismatch("unparse_stack_order", {"kind": "file", "what": "write_string(value_column='auto', stack adds a field)"}, got_a[:300], want_a[:300], kind="file")
        except Exception as ex:  # noqa
            chk.mismatch("unparse_stack_order", {"kind": "file", "what": "write_string(value_column='auto', stack adds a field)"},
                         f"{type(ex).__name__}: {ex}", "the writer's text for the transformed library", kind="file")
        # a path that already holds text receives exactly the (possibly empty) text of the next write
        n += 1
        p_twice = os.path.join(d, "twice.bib")
        try:
            bib.write_file(p_twice, lib_a)
            bib.write_file(p_twice, bib.Library())
            with open(p_twice) as fh:
                left = fh.read()
            if left != bib.write_string(bib.Library()):
                chk.mismatch("write_file", {"kind": "file", "what": "write_file(path, library) then write_file(path, empty library)"}, left[:200],
                             bib.write_string(bib.Library()), kind="file")
        except Exception as ex:  # noqa
            chk.mismatch("write_file", {"kind": "file", "what": "write_file(path, empty library)"}, f"{type(ex).__name__}: {ex}", "an empty file", kind="file")
        # write_file
        lib = bib.parse_string(docs["utf-8"])
        M = bib.model

        class Suffix(bib.middlewares.BlockMiddleware):
            """edits VALUES, so that its position relative to the default write stack shows in the text"""
            def __init__(self):
                super().__init__(allow_inplace_modification=False)

            def transform_entry(self, entry, library):
                for f in entry.fields:
                    if isinstance(f.value, str):
                        f.value = f.value + "-1"
                return entry
        for variant in ("default", "stack", "prepend", "prepend-values", "ends-in-newlines"):
            kw_ws, kw_wf = {}, {}
            if variant == "stack":
                kw_ws, kw_wf = {"unparse_stack": []}, {"parse_stack": []}
            elif variant == "prepend":
                kw_ws = {"prepend_middleware": [bib.middlewares.SortFieldsAlphabeticallyMiddleware(allow_inplace_modification=False)]}
                kw_wf = {"append_middleware": [bib.middlewares.SortFieldsAlphabeticallyMiddleware(allow_inplace_modification=False)]}
            elif variant == "prepend-values":
                kw_ws = {"prepend_middleware": [Suffix()]}
                kw_wf = {"append_middleware": [Suffix()]}
            fmt = bib.BibtexFormat()
            fmt.indent = "  "
            try:
                src = lib if variant != "stack" else bib.parse_string(docs["utf-8"], parse_stack=[])
                if variant == "ends-in-newlines":
                    # a text that ends in several line breaks (and one that ends in none) is written as it is
                    src = bib.Library([M.Entry("article", "k", [M.Field("a", "b")]), M.ImplicitComment("last words\n\n\n")])
                    fmt.block_separator = "\n\n\n"
                want = bib.write_string(src, bibtex_format=fmt, **kw_ws)
                for target in ("path", "fileobj", "stringio"):
                    n += 1
                    p = os.path.join(d, f"out-{variant}-{target}.bib")
                    if target == "path":
                        bib.write_file(p, src, bibtex_format=fmt, **kw_wf)
                        with open(p) as fh:
                            got = fh.read()
                    elif target == "fileobj":
                        with open(p, "w", encoding="utf-8", newline="") as fh:
                            bib.write_file(fh, src, bibtex_format=fmt, **kw_wf)
                        with open(p, encoding="utf-8", newline="") as fh:
                            got = fh.read()
                    else:
                        s = io.StringIO()
                        bib.write_file(s, src, bibtex_format=fmt, **kw_wf)
                        got = s.getvalue()
                    if got != want:
                        chk.mismatch("write_file", {"kind": "file", "variant": variant, "target": target}, got[:300], want[:300], kind="file")
            except Exception as ex:  # noqa
                chk.mismatch("write_file", {"kind": "file", "variant": variant}, f"{type(ex).__name__}: {ex}", "writes write_string's text", kind="file")
    finally:
        shutil.rmtree(d, ignore_errors=True)
    return n


def run(chk: core.Check):
    bib = core.import_repo()
    maxs = 2 if chk.tier == "quick" else 3
    chk.extra["rule"] = (f"every configuration of MC_Entrypoints (stacks of 0..{maxs} of 5 parse / 4 write middlewares in each "
                         "argument position x list/tuple/one-shot iterator; both arguments; 14 result kinds x 5 block types for "
                         "the splice protocol) + file clauses; non-trivial = distinct configuration")
    res = core.run_tlc("MC_Entrypoints", f"INIT Init\nNEXT Next\nCONSTANT MaxStack = {maxs}\nINVARIANT InvOrder\nINVARIANT InvBoth\nINVARIANT InvInto\n"
                                         "CHECK_DEADLOCK FALSE\n")
    chk.add_tlc(res, f"MC_Entrypoints MaxStack={maxs}: InvOrder, InvBoth")
    BlockProbe, LibProbe = make_probes(bib)
    n = 0
    for e in res.json_lines():
        c, want = e["c"], e["r"]
        n += 1
        if not e["applicable"]:
            continue      # a stack that hands an int to RemoveEnclosing may raise (value type-state, see C07)
        got = run_cfg(bib, c, BlockProbe, LibProbe)
        chk.note_case(core.canon(c))
        ok = got.get("err") == want["err"]
        clause = "both_arguments_raise" if c["side"] != "splice" else "splice_type_error"
        if ok and not want["err"]:
            if c["side"] == "parse":
                w = want_entry(want["e"])
                ok, clause = got["e"] == w and "empty_document" not in got, "parse_stack_order"
                wp = want_entry(want["pre"])
                want = w
                if ok:
                    winto = {"keys": ["pre", "k"], "pre": wp, "e": w, "blocks": 2} if w.get("live", True) else {"keys": [], "blocks": 0}
                    if got["into"] != winto:
                        ok, clause, want = False, "parse_into_library", {"e": w, "into": winto}
                if ok:
                    # the statement read literally, on a document with duplicates, CRLF lines and strings
                    for with_library in (False, True):
                        M = bib.model
                        lib0 = bib.Library([M.Entry("article", "pre", [M.Field("title", "{{x}}"), M.Field("month", "3")], raw="r0")]) if with_library else None
                        try:
                            lhs = shape(bib.parse_string(DOC3, library=lib0, parse_stack=build(bib, c["ps"], BlockProbe, LibProbe, c["ct"]),
                                                         append_middleware=build(bib, c["app"], BlockProbe, LibProbe, c["ct"])), M)
                        except Exception as ex:  # noqa
                            lhs = f"{type(ex).__name__}: {ex}"
                        rhs = by_hand(bib, list(e["stack"]), BlockProbe, LibProbe, with_library)
                        if lhs != rhs:
                            ok, clause = False, "parse_equals_split_then_stack"
                            got, want = {"err": False, "parse_string": lhs, "library_given": with_library}, {"split_then_stack": rhs}
                            break
            elif c["side"] == "write":
                # expected text: the effective stack of the specification applied by hand, then the real writer
                # (so that only the ORDER and CONTENT of the stack are judged here, not the writer's layout: C06)
                M = bib.model
                lib = bib.Library([M.Entry("article", "k", [M.Field("title", "x")])])
                for m in build(bib, e["stack"], BlockProbe, LibProbe, "list"):
                    lib = m.transform(lib)
                byhand = bib.writer.write(lib)
                ok, clause = got["text"] == byhand, "unparse_stack_order"
                want = {"text": byhand, "stack": e["stack"], "text_by_Writer_spec": want["text"]}
            else:
                ok, clause = got["bs"] == list(want["bs"]), "splice"
        if not ok:
            chk.mismatch(clause, {"kind": "cfg", "cfg": c}, got, want, spec={"module": "Entrypoints"}, kind="cfg")
        if c["side"] == "parse" and len(c["app"]) == 2 and c["app"] != ["None"]:
            chk.sample({"config": c, "result": want})
    if n != res.exported or n == 0:
        raise core.MachineryError("MC_Entrypoints export mismatch")
    chk.traces += n
    chk.clause("T2.configuration", n)
    chk.exhaustive = True
    try:
        nf = files(chk, bib)
    except core.MachineryError:
        raise
    except Exception as ex:  # noqa: the file clauses call the entry points directly; an exception there is a verdict
        chk.mismatch("parse_stack_order", {"kind": "file", "what": "entry points called with their default stacks"},
                     f"{type(ex).__name__}: {ex}", "the default stacks are what the documentation says, in every call", kind="file")
        nf = 1
    chk.traces += nf
    chk.evaluations += nf
    chk.clause("T2.file_clauses", nf)
    chk.assumptions += ["the warning emitted when a middleware type is repeated is not compared",
                        "file clauses use the platform's default encoding for write_file(path) as the code does"]


def replay(rec, chk):
    bib = core.import_repo()
    if rec["input"]["kind"] != "cfg":
        raise core.MachineryError("file-clause replays: re-run bin/check C20")
    BlockProbe, LibProbe = make_probes(bib)
    got = run_cfg(bib, rec["input"]["cfg"], BlockProbe, LibProbe)
    exp = rec["expected"]
    side = rec["input"]["cfg"]["side"]
    if got.get("err") is not False or exp.get("err") is True:
        ok = got.get("err") == exp.get("err", False) and exp.get("err") is True
    elif side == "parse":
        ok = (got["e"] == exp["e"] and got["into"] == exp["into"]) if "into" in exp else got["e"] == exp
    elif side == "write":
        ok = got["text"] == exp["text"]
    else:
        ok = got["bs"] == list(exp["bs"])
    return got, exp, ok
