"""X03 (spec growth, not a listed property) - writer.BibtexFormat as a validated record (Format.tla).

T1: MC_Format: every history of <= MaxLen assignments over a pool of 10 values x 5 attributes: the column stays
    well-formed, a rejected assignment changes nothing, only the named attribute changes, reads return the write.
T2: every edge replayed on a real BibtexFormat brought into the edge's source state through its own setters.
T3: random histories (also on deep copies of a format with a past) -> Trace_Format.
Differences are NOTE lines and evidence only; never a VIOLATION of a listed property.
"""
from __future__ import annotations

import copy
import random

from .. import core

ATTRS = ["indent", "value_column", "block_separator", "trailing_comma", "parsing_failed_comment"]
FIELD = {"indent": "indent", "value_column": "vc", "block_separator": "sep", "trailing_comma": "tc", "parsing_failed_comment": "pfc"}


def names(bib):
    return {"TAB": "\t", "NLNL": "\n\n", "DEFAULT": bib.writer.PARSING_FAILED_COMMENT}


def conc(bib, v):
    t = v["t"]
    if t == "int":
        return int(v["n"])
    if t == "str":
        return names(bib).get(v["s"], v["s"])
    if t == "bool":
        return bool(v["b"])
    if t == "float":
        return float(v["n"])
    return None


def absv(bib, x):
    if isinstance(x, bool):
        return {"t": "bool", "b": x}
    if isinstance(x, int):
        return {"t": "int", "n": x}
    if isinstance(x, str):
        rev = {v: k for k, v in names(bib).items()}
        return {"t": "str", "s": rev.get(x, x)}
    if isinstance(x, float):
        return {"t": "float", "n": int(x)}
    return {"t": "none"}


def view(bib, fmt):
    return {a: absv(bib, getattr(fmt, a)) for a in ATTRS}


def make(bib, f):
    fmt = bib.BibtexFormat()
    for a in ATTRS:
        setattr(fmt, a, conc(bib, f[FIELD[a]]))
    return fmt


def assign(bib, fmt, a, v):
    try:
        setattr(fmt, a, conc(bib, v))
        return True
    except ValueError:
        return False


def run(chk: core.Check):
    bib = core.import_repo()
    rnd = random.Random(chk.seed + 103)
    maxlen, nrand = (2, 400) if chk.tier == "quick" else (3, 5000)
    res = core.run_tlc("MC_Format", f"INIT Init\nNEXT Next\nCONSTANT MaxLen = {maxlen}\nINVARIANT InvWellFormed\nINVARIANT InvReadBack\n"
                                    "PROPERTY RejectKeeps\nPROPERTY OnlyNamed\nCHECK_DEADLOCK FALSE\n")
    chk.add_tlc(res, f"MC_Format MaxLen={maxlen}: InvWellFormed, InvReadBack, RejectKeeps, OnlyNamed")
    diffs, n = [], 0
    for e in res.json_lines():
        n += 1
        fmt = make(bib, e["f"])
        if view(bib, fmt) != {a: e["f"][FIELD[a]] for a in ATTRS}:
            raise core.MachineryError("X03 cannot build source state " + str(e["f"]))
        ok = assign(bib, fmt, e["a"], e["v"])
        got = view(bib, fmt)
        want = {a: e["g"][FIELD[a]] for a in ATTRS}
        if (ok != e["ok"] or got != want) and len(diffs) < 10:
            diffs.append({"state": e["f"], "assign": [e["a"], e["v"]], "observed": [ok, got], "expected": [e["ok"], want]})
    if n == 0 or n != res.exported:
        raise core.MachineryError("MC_Format export mismatch")
    chk.traces += n
    chk.evaluations += n
    chk.nontrivial.update(range(n))
    chk.clause("T2.assignment_edge", n)
    chk.exhaustive = True
    # ---- T3 ----
    pool = [0, 1, 40, -1, -7, 2 ** 40, "auto", "AUTO", "", " auto", True, False, None, 1.5, "\t", "  ", "\n", "% failed {n}", "x"]
    cases = []
    for cid in range(nrand):
        fmt = bib.BibtexFormat()
        ev = []
        for _ in range(rnd.randint(1, 12)):
            a = rnd.choice(ATTRS)
            x = rnd.choice(pool)
            if isinstance(x, int) and not isinstance(x, bool) and abs(x) >= 2 ** 31:
                x = 2 ** 20          # TLC integers are 32-bit
            if rnd.random() < 0.15:
                fmt = copy.deepcopy(fmt)          # a copy carries the state on
            try:
                setattr(fmt, a, x)
                ok = True
            except ValueError:
                ok = False
            ev.append({"a": a, "v": absv(bib, x), "ok": ok, "st": view(bib, fmt)})
        cases.append({"id": cid, "ev": ev})
    v = core.validate_traces("Trace_Format", cases, shards=4)
    for r in v.results:
        chk.add_tlc(r, "Trace_Format shard", count_states=False)
    for r in v.rejects[:10]:
        diffs.append({"history": cases[r["reject"]]["ev"][:r["at"]], "clause": r["clause"], "expected": r["expected"]})
    chk.traces += len(cases)
    chk.evaluations += sum(len(c["ev"]) for c in cases)
    chk.clause("T3.history", len(cases))
    chk.extra["rule"] = f"every history of <= {maxlen} assignments (5 attributes x 10 values); random histories of 1-12 assignments with deep copies"
    chk.extra["differences_from_specification"] = len(diffs)
    chk.extra["first_differences"] = diffs[:3]
    chk.sample(diffs[0] if diffs else cases[0])
    for d in diffs[:5]:
        print("NOTE X03 differs from the specification:", str(d)[:300])
    chk.assumptions += ["spec growth: not a listed property; differences are notes, not violations",
                        "a bool is accepted as a column because Python's bool is an int (named in Format.tla)"]


def replay(rec, chk):
    raise core.MachineryError("X03 has no replays")
