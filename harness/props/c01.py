"""C01 — parsing and re-writing never raise: bad input becomes failed blocks.

T1/T2: MC_Splitter (prefix library x all suffixes): NoInternalError, FailedCarry ... on the model; every input
       concretised and run through Splitter.split, parse_string and write_string.
T3:    size-scaled families and seeded garbage, with a per-input time budget; conformance via Oracle_Splitter.
"""
from __future__ import annotations

import random
import time

from .. import core, splitpipe

CLAUSES = {"raised", "failed_carry"}


def parse_write(bib, text, budget=None):
    """Returns None or {clause, detail}: parse_string and write_string must return; failed blocks carry error+raw."""
    M = bib.model
    try:
        if budget:
            with splitpipe.time_limit(budget):
                lib = bib.parse_string(text)
        else:
            lib = bib.parse_string(text)
    except splitpipe.Timeout:
        return {"clause": "hang", "detail": f"parse_string did not return within {budget:.0f}s"}
    except BaseException as e:  # noqa
        return {"clause": "parse_string_raised", "detail": f"{type(e).__name__}: {str(e)[:100]}"}
    if not isinstance(lib, bib.Library):
        return {"clause": "parse_string_raised", "detail": f"returned {type(lib).__name__}"}
    for b in lib.failed_blocks:
        if b.error is None or not isinstance(b.raw, str) or b.raw == "":
            return {"clause": "failed_carry", "detail": f"{type(b).__name__} error={b.error!r} raw={b.raw!r}"}
    # "syntax errors surface ... as failed blocks STORED IN THE LIBRARY": what the scanner reported is still there after the
    # default stack ran (raw text by raw text)
    try:
        scanned = [b.raw for b in bib.splitter.Splitter(text).split().failed_blocks]
    except BaseException:  # noqa
        scanned = []
    have = [b.raw for b in lib.failed_blocks]
    for raw in scanned:
        if raw in have:
            have.remove(raw)
        else:
            return {"clause": "failed_carry", "detail": f"the failed block the scanner reported for {raw[:60]!r} is not in the library parse_string returned"}
    try:
        if budget:
            with splitpipe.time_limit(budget):
                s = bib.write_string(lib)
        else:
            s = bib.write_string(lib)
    except splitpipe.Timeout:
        return {"clause": "hang", "detail": f"write_string did not return within {budget:.0f}s"}
    except BaseException as e:  # noqa
        return {"clause": "write_string_raised", "detail": f"{type(e).__name__}: {str(e)[:100]}"}
    if not isinstance(s, str):
        return {"clause": "write_string_raised", "detail": f"returned {type(s).__name__}"}
    # ... whatever BibtexFormat the caller asks for ("write_string on that library returns a string")
    for vc, tc, sep in (("auto", True, ""), (12, False, "\n")):
        fmt = bib.BibtexFormat()
        fmt.value_column, fmt.trailing_comma, fmt.block_separator, fmt.indent = vc, tc, sep, ""
        try:
            s = bib.write_string(lib, bibtex_format=fmt)
        except BaseException as e:  # noqa
            return {"clause": "write_string_raised", "detail": f"value_column={vc!r} separator={sep!r}: {type(e).__name__}: {str(e)[:100]}"}
        if not isinstance(s, str):
            return {"clause": "write_string_raised", "detail": f"returned {type(s).__name__}"}
    return None


def _extra(bib, text, e, toks):
    x = parse_write(bib, text, 20)
    if x:
        x["text"] = text
    return x


def report(chk, text, clause, detail, how="split"):
    chk.mismatch(clause, {"kind": "text", "text": text if len(text) < 4000 else None,
                          "text_head": text[:200], "len": len(text), "how": how}, detail,
                 "returns a Library / a string; syntax errors only as failed blocks with error and raw",
                 spec={"module": "BibSplitter", "operator": "Run"}, kind="text")


def run(chk: core.Check):
    bib = core.import_repo()
    rnd = random.Random(chk.seed + 1)
    chk.extra["rule"] = ("T2: every token sequence prefix(30-prefix library) x suffix(<= MaxSuffix over 16 symbols) of "
                         "MC_Splitter in 2-4 spellings; T3: size-scaled families and seeded garbage; non-trivial = distinct "
                         "abstract token sequence / distinct text")
    if chk.tier == "quick":
        runs = [(3, range(1, splitpipe.NPREFIX + 1), 2)]
        scales, ngarb = [1100, 5000], 3000
    else:
        runs = [(4, range(1, splitpipe.NPREFIX + 1), 3), (5, [1], 2)]
        scales, ngarb = [1000, 1100, 10000], 60000
    unattributed = 0
    for maxsuffix, prefixes, nvar in runs:
        recs, counters, extras = splitpipe.t2(chk, bib, maxsuffix, prefixes, nvar, extra=_extra)
        for k, v in counters.items():
            chk.extra[k] = chk.extra.get(k, 0) + v
        chk.clause("T2.split_returns+failed_carry", counters["t2_concrete_runs"])
        chk.clause("T2.parse_string+write_string_return", counters["t2_concrete_runs"])
        for r in recs:
            mine = [c for c in r["diff"] if c in CLAUSES]
            if mine:
                report(chk, r["text"], mine[0], r["diff"][mine[0]])
            else:
                unattributed += 1
        for x in extras:
            report(chk, x["text"], x["clause"], x["detail"], how="parse_string+write_string")
    chk.exhaustive = True
    # ---- T3 -----------------------------------------------------------------
    texts, labels = [], []
    for n in scales:
        for name, t in splitpipe.families(n).items():
            texts.append(t)
            labels.append(f"{name}[{n}]")
    garb = splitpipe.garbage(rnd, ngarb) + splitpipe.ugarbage(rnd, ngarb // 2)
    # documents whose @string values and field values are bare identifiers from one small pool: references,
    # self-references, cycles, duplicates, undefined names
    from .. import docgen
    pool = ["a", "b", "c", "A"]
    refvals = pool + ["{a}", '"b"', "a # b", "1", "", "c # {x}"]
    for i in range(ngarb // 10):
        d = docgen.Doc()
        for j in range(rnd.randint(1, 6)):
            if rnd.random() < 0.5:
                docgen.gen_string(d, rnd, rnd.choice(pool), rnd.choice(refvals), ws=["", " "])
            else:
                docgen.gen_entry(d, rnd, rnd.choice(pool) + str(j), fields=[(k, rnd.choice(refvals)) for k in rnd.sample(pool, rnd.randint(0, 3))], ws=["", " "])
            d.add(rnd.choice(["\n", " ", ""]))
        garb.append(d.text)
    # the same entry / string key two and three times, for keys that look like format fields, escapes, percent codes, ...
    for key in ["a\\{b", "a\\}b", "\\{0\\}", "\\{\\}", "%s", "%(x)s", "{0", "a b", "é", "", "k", "\\", "$1", "\\n", "a\\\"b", "0"]:
        garb.append("@a{%s, x = 1}\n@b{%s, y = {2}}\n@string{%s = 1}\n@string{%s = \"2\"}\n@a{%s}" % ((key,) * 5))
    # keys that are different strings but equal under case folding / Unicode normalisation / after stripping
    for k1, k2 in [("\u00e9", "e\u0301"), ("\u212b", "\u00c5"), ("\uac00", "\u1100\u1161"), ("K", "\u212a"), ("stra\u00dfe", "strasse"), ("A", "a"),
                   ("\ufb01", "fi"), ("k", "k\u200b"), ("\u0130", "i\u0307")]:
        garb.append("@a{%s, x = 1}\n@a{%s, x = 2}\n@string{%s = 1}\n@string{%s = 2}\n@a{%s, x = 3}" % (k1, k2, k1, k2, k1))
    recs = splitpipe.t3(chk, bib, texts + garb)
    chk.clause("T3.families", len(texts))
    chk.clause("T3.garbage", len(garb))
    for i, r in enumerate(recs):
        mine = [c for c in r["diff"] if c in CLAUSES]
        if mine:
            report(chk, r["text"], mine[0], r["diff"][mine[0]])
        elif r["diff"]:
            unattributed += 1
    # totality of the two entry points, with a time budget; the biggest scale is checked for this clause only
    big = [] if chk.tier == "quick" else list(splitpipe.families(100000).items())
    allt = list(zip(labels, texts)) + [(f"{k}[100000]", v) for k, v in big] + [("garbage", g) for g in garb]
    # every mark character pumped in every control state (64 and the largest scale), and texts with lone surrogates
    # (legal Python str; only this clause, they cannot be handed to TLC as JSON)
    allt += list(splitpipe.pumped(64).items()) + list(splitpipe.pumped(scales[-1]).items())
    allt += [("lone surrogate", t) for t in splitpipe.SURROGATES] + [("lone surrogate", g[:len(g) // 2] + "\udc9f" + g[len(g) // 2:]) for g in garb[:200]]
    t0 = time.time()
    hangs = 0
    for label, t in allt:
        if hangs >= 3:
            break              # (a hanging tree: three reports are enough, each costs two budgets)
        budget = 30 + len(t) * 2e-4
        x = parse_write(bib, t, budget)
        if x and x["clause"] == "hang":
            x = parse_write(bib, t, budget)  # re-run once before reporting (DESIGN 9)
            hangs += 1 if x and x["clause"] == "hang" else 0
        if x:
            report(chk, t, x["clause"], f"{label}: {x['detail']}", how="parse_string+write_string")
    chk.clause("T3.parse_string+write_string_return", len(allt))
    chk.extra["t3_totality_wall_s"] = round(time.time() - t0, 1)
    chk.extra["unattributed_conformance_differences"] = unattributed
    chk.sample({"family": labels[0], "len": len(texts[0]), "verdict": "returned"})
    chk.assumptions += ["'hang' means: no return within 30 s + 0.2 ms per input character, twice",
                        "recursion limit is CPython's default (1000)"]


def replay(rec, chk):
    bib = core.import_repo()
    inp = rec["input"]
    text = inp["text"]
    if text is None:
        raise core.MachineryError("input too large to be stored in the replay file; regenerate with the family name in 'observed'")
    if inp["how"] == "split":
        from .. import splitobs
        recs, _ = splitobs.evaluate(bib, [text])
        d = {k: v for k, v in recs[0]["diff"].items() if k in CLAUSES}
        return d, rec["expected"], not d
    x = parse_write(bib, text, 60)
    return x, rec["expected"], x is None
