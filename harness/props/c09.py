"""C09 — duplicate keys are never merged or dropped: first wins, the rest are flagged.

T1:  MC_Dup: every document of <= MaxBlocks blocks over 12 templates with colliding entry/string/field keys:
     DupOK (count preserved, first live, later wrapped at their own position pointing at the first, duplicate-field
     entries not live, Library!Consistent), InvCount.
T2:  every document concretised (two spellings) and parsed with parse_stack=[] and with the default stack; the
     library structure is compared position by position with the exported one.
T3:  random derivations with keys from a pool of 3 (entries, strings, fields) -> Oracle_Splitter (lib) -> compare.
"""
from __future__ import annotations

import random

from .. import bibtok, core, docgen, splitobs

SPELL = [
    {"W1": "k1", "W2": "k2", "W3": "v", "F": "f", "G": "g", "FF": "F", "SP": " ", "NL": "\n"},
    {"W1": "Key", "W2": "key", "W3": "x y", "F": "title", "G": "TITLE", "FF": "Title", "SP": "\n\t", "NL": "\r\n\r\n"},
]
FIX = {"LB": "{", "RB": "}", "QT": '"', "CM": ",", "EQ": "="}
NAME_OF_W = {10: "ATE", 11: "ATC", 12: "ATP", 13: "ATS", 1: "LB", 2: "RB", 3: "QT", 4: "CM", 5: "EQ", 6: "NL", 7: "SP",
             21: "W1", 22: "W2", 25: "W3", 31: "F", 32: "G", 33: "FF"}


def concretise(ws, v, rnd):
    sp = SPELL[v]
    out = []
    for w in ws:
        nm = NAME_OF_W[w]
        if nm == "ATE":
            out.append(rnd.choice(["@article", "@Book", "@commentary"]) if v else "@a")
        elif nm == "ATS":
            out.append("@String" if v else "@string")
        elif nm == "ATC":
            out.append("@comment")
        elif nm == "ATP":
            out.append("@preamble")
        else:
            out.append(FIX.get(nm) or sp[nm])
    return "".join(out)


def observe_lib(lib, M):
    blocks = lib.blocks
    pos = {id(b): i + 1 for i, b in enumerate(blocks)}

    def locate(b):
        if id(b) in pos:
            return pos[id(b)]
        for i, c in enumerate(blocks):   # a copy is as good as the object: same class, raw and line
            if type(c) is type(b) and c.raw == b.raw and c.start_line == b.start_line:
                return i + 1
        return 0
    out = []
    for b in blocks:
        if isinstance(b, M.DuplicateBlockKeyBlock):
            inner = b.ignore_error_block
            out.append({"w": True, "dup_key": b.key, "prev": locate(b.previous_block),
                        "prev_is_live": isinstance(b.previous_block, (M.Entry, M.String)),
                        "inner_cls": type(inner).__name__, "inner_key": getattr(inner, "key", None),
                        "inner_raw": getattr(inner, "raw", None), "raw": b.raw,
                        "inner_fields": [[f.key, f.value] for f in inner.fields] if isinstance(inner, M.Entry) else None,
                        "inner_value": inner.value if isinstance(inner, M.String) else None,
                        "has_error": b.error is not None})
        else:
            out.append({"w": False})
    return {"blocks": out,
            "live_entries": sorted(locate(b) for b in lib.entries_dict.values()),
            "live_strings": sorted(locate(b) for b in lib.strings_dict.values()),
            "entries_dict_keys_ok": all(k == b.key for k, b in lib.entries_dict.items()),
            "strings_dict_keys_ok": all(k == b.key for k, b in lib.strings_dict.items()),
            "failed": sorted(locate(b) for b in lib.failed_blocks)}


def lib_diff(speclib, exp_blocks, ol, raw_values=True):
    """speclib: LibDesc from TLC; exp_blocks: rendered source blocks; ol: observe_lib()."""
    sb = speclib["blocks"]
    if len(ol["blocks"]) != len(sb):
        return "count", f"{len(ol['blocks'])} blocks returned for {len(sb)} source blocks"
    for i, (s, o) in enumerate(zip(sb, ol["blocks"])):
        if s["w"] != o["w"]:
            return ("first_is_live" if not s["w"] else "later_is_flagged"), \
                f"position {i + 1}: {'wrapped' if o['w'] else 'not wrapped'}, expected {'wrapped' if s['w'] else 'not wrapped'}"
        if s["w"]:
            e = exp_blocks[i]
            if o["prev"] != s["prev"]:
                return "previous_block", f"wrapper at {i + 1} points at position {o['prev']}, expected {s['prev']}"
            if o["dup_key"] != e["key"] or not o["has_error"]:
                return "wrapper_key", f"wrapper at {i + 1} exposes key {o['dup_key']!r} error={o['has_error']}, expected {e['key']!r}"
            want_cls = "Entry" if e["cls"] == "entry" else "String"
            if o["inner_cls"] != want_cls or o["inner_key"] != e["key"] or (o["inner_raw"] or "").strip() != e["raw"].strip() or (o["raw"] or "").strip() != e["raw"].strip():
                return "complete_duplicate", f"wrapper at {i + 1} holds {o['inner_cls']} key={o['inner_key']!r}, expected {want_cls} {e['key']!r}"
            if raw_values and e["cls"] == "entry" and o["inner_fields"] != [f[:2] for f in e["fields"]]:
                return "complete_duplicate", f"wrapper at {i + 1} inner fields {o['inner_fields']!r} expected {[f[:2] for f in e['fields']]!r}"
            if raw_values and e["cls"] == "string" and o["inner_value"] != e["value"]:
                return "complete_duplicate", f"wrapper at {i + 1} inner value {o['inner_value']!r} expected {e['value']!r}"
    if ol["live_entries"] != sorted(speclib["live_entries"]) or not ol["entries_dict_keys_ok"]:
        return "entries_dict", f"live entries at {ol['live_entries']} expected {sorted(speclib['live_entries'])}"
    if ol["live_strings"] != sorted(speclib["live_strings"]) or not ol["strings_dict_keys_ok"]:
        return "strings_dict", f"live strings at {ol['live_strings']} expected {sorted(speclib['live_strings'])}"
    if ol["failed"] != sorted(speclib["failed"]):
        return "failed_blocks", f"failed blocks at {ol['failed']} expected {sorted(speclib['failed'])}"
    return None


def check_text(bib, text, toks, out, speclib):
    """Returns list of (clause, detail, how)."""
    M = bib.model
    exp = splitobs.render(text, toks, out)
    res = []
    for how in ("parse_stack=[]", "default", "default stack in copy mode"):
        try:
            if how == "parse_stack=[]":
                lib = bib.parse_string(text, parse_stack=[])
            elif how == "default":
                lib = bib.parse_string(text)
            else:
                lib = bib.parse_string(text, parse_stack=bib.middlewares.default_parse_stack(allow_inplace_modification=False))
        except Exception as e:  # noqa
            res.append(("raised", f"{type(e).__name__}: {e}", how))
            continue
        # a duplicate-field block keeps EVERY field occurrence of its entry, in source order, whatever the stack
        for i, (b, e) in enumerate(zip(lib.blocks, exp)):
            if e["cls"] == "dupfield":
                inner = getattr(b, "ignore_error_block", None)
                keys = [f.key for f in inner.fields] if isinstance(inner, M.Entry) else None
                if not isinstance(b, M.DuplicateFieldKeyBlock) or keys != [f[0] for f in e["fields"]]:
                    res.append(("duplicate_field_block", f"position {i + 1}: {type(b).__name__} with field keys {keys}, expected every "
                                f"occurrence {[f[0] for f in e['fields']]}", how))
                    break
        if how == "parse_stack=[]":
            obs = splitobs.observe(lib, M)
            problem, spans = splitobs.locate(text, obs)
            if problem:
                res.append(("blocks", problem, how))
                continue
            d = splitobs.compare(obs, exp, spans, text)
            for c in ("blocks", "content", "failed_carry"):
                if c in d:
                    res.append(("duplicate_field_block" if any(e["cls"] == "dupfield" for e in exp) and c != "blocks" else c, d[c], how))
                    break
        bad = lib_diff(speclib, exp, observe_lib(lib, M), raw_values=(how == "parse_stack=[]"))
        if bad:
            res.append((bad[0], bad[1], how))
    return res


_G = {}


def _chunk(lines):
    bib = _G["bib"]
    res = {"n": 0, "mism": [], "samples": [], "collisions": 0}
    for line in lines:
        e = core.parse_export(line)
        rnd = random.Random(hash((_G["seed"], tuple(e["d"]))) & 0xFFFFFFFF)
        if any(b["w"] for b in e["lib"]["blocks"]) or any(b["t"] == "dupfield" for b in e["out"]):
            res["collisions"] += 1
        for v in (0, 1):
            text = concretise(e["w"], v, rnd)
            toks = bibtok.alpha(text)
            if [t.k for t in toks] != [{"W1": "W", "W2": "W", "W3": "W", "F": "W", "G": "W", "FF": "W"}.get(NAME_OF_W[w], NAME_OF_W[w]) for w in e["w"]]:
                if v == 1:   # the spaced spelling merges SP NL into other token boundaries: re-derive through the oracle instead
                    res.setdefault("t3", []).append(text)
                    continue
                raise core.MachineryError("C09 concretisation does not lex back: " + repr(text))
            res["n"] += 1
            for clause, detail, how in check_text(bib, text, toks, e["out"], e["lib"]):
                res["mism"].append({"clause": clause, "detail": detail, "how": how, "text": text})
            if not res["samples"] and len(e["d"]) >= 3 and any(b["w"] for b in e["lib"]["blocks"]):
                res["samples"].append({"document": text, "positions": e["lib"]["blocks"]})
    return res


def report(chk, m):
    chk.mismatch(m["clause"], {"kind": "text", "text": m["text"], "how": m["how"]}, m["detail"],
                 "first block with a key is live; later ones are DuplicateBlockKeyBlock at their own position exposing key, "
                 "first block and complete duplicate; duplicate-field entries are failed blocks keeping all fields",
                 spec={"module": "BibLibrary", "operator": "DupOK"}, kind="text")


def via_oracle(chk, bib, texts, label):
    recs, tlcs = splitobs.evaluate(bib, texts, how="parse0", lib=True)
    for r in tlcs:
        chk.add_tlc(r, "Oracle_Splitter (lib) " + label, count_states=False)
    n = 0
    for r in recs:
        if r["raised"]:
            report(chk, {"clause": "raised", "detail": r["raised"], "how": "parse_stack=[]", "text": r["text"]})
            continue
        toks = bibtok.alpha(r["text"], [x for s in r["spans"] for x in s])
        # expected blocks were rendered by evaluate(); the library structure is compared here
        M = bib.model
        for how in ("parse_stack=[]", "default"):
            lib = bib.parse_string(r["text"], parse_stack=[]) if how == "parse_stack=[]" else bib.parse_string(r["text"])
            bad = lib_diff(r["lib"], r["exp"], observe_lib(lib, M), raw_values=(how == "parse_stack=[]")) if not r["diff"].get("blocks") else ("blocks", r["diff"]["blocks"])
            if bad:
                report(chk, {"clause": bad[0], "detail": bad[1], "how": how, "text": r["text"]})
        for c in ("content", "failed_carry"):
            if c in r["diff"]:
                report(chk, {"clause": c, "detail": r["diff"][c], "how": "parse_stack=[]", "text": r["text"]})
        n += 1
    return n


def run(chk: core.Check):
    bib = core.import_repo()
    rnd = random.Random(chk.seed + 9)
    maxb, nrand = (4, 1500) if chk.tier == "quick" else (5, 20000)
    chk.extra["rule"] = (f"T2: every document of <= {maxb} blocks over 12 templates with colliding keys, two spellings, two parse "
                         "stacks; T3: random derivations with keys from a pool of 3; non-trivial = document with a collision")
    res = core.run_tlc("MC_Dup", f"INIT Init\nNEXT Next\nCONSTANT MaxBlocks = {maxb}\nINVARIANT InvDup\nINVARIANT InvCount\n"
                                 "INVARIANT InvWellFormed\nCHECK_DEADLOCK FALSE\n", timeout=3000, heap="16g")
    chk.add_tlc(res, f"MC_Dup MaxBlocks={maxb}: InvDup (DupOK), InvCount, InvWellFormed")
    _G.update(bib=bib, seed=chk.seed)
    lines = list(res.raw_lines())
    outs = core.pmap(_chunk, core.chunks(lines, len(lines) // 64 + 1))
    n = sum(o["n"] for o in outs)
    if not lines or n == 0:
        raise core.MachineryError("MC_Dup exported nothing")
    coll = sum(o["collisions"] for o in outs)
    chk.traces += n
    chk.evaluations += n
    chk.nontrivial.update(range(coll))
    chk.extra["t2_documents"] = len(lines)
    chk.extra["t2_documents_with_a_collision"] = coll
    chk.clause("T2.document(count, wrappers, previous, live sets, duplicate-field blocks)", n)
    chk.exhaustive = True
    for o in outs:
        for s in o["samples"]:
            chk.sample(s)
        for m in o["mism"]:
            report(chk, m)
    spaced = [t for o in outs for t in o.get("t3", [])]
    # ---- T3 ----
    docs = []
    pool = ["k1", "k2", "K1", "ß", "ss", "SS"]      # equal only under case folding: different keys
    for i in range(nrand):
        d = docgen.Doc()
        for j in range(rnd.randint(1, 8)):
            r = rnd.random()
            if r < 0.55:
                nf = rnd.randint(0, 4)
                fields = [(rnd.choice(["f", "g", "F"]), rnd.choice(docgen.VALUES)) for _ in range(nf)]
                docgen.gen_entry(d, rnd, rnd.choice(pool), fields=fields)
            elif r < 0.8:
                docgen.gen_string(d, rnd, rnd.choice(pool))
            elif r < 0.9:
                docgen.gen_comment(d, rnd)
            else:
                docgen.gen_preamble(d, rnd)
            docgen.gen_gap(d, rnd)
        docs.append(d.text)
    n3 = via_oracle(chk, bib, docs + spaced[: (2000 if chk.tier == "quick" else 50000)], "T3")
    chk.traces += n3
    chk.evaluations += n3
    chk.clause("T3.document", n3)
    chk.assumptions += ["previous_block is identified by identity, or by (class, raw, start_line) when a copy was made",
                        "with the default stack only the library structure and keys are compared (values are transformed)"]


def replay(rec, chk):
    bib = core.import_repo()
    text = rec["input"]["text"]
    recs, _ = splitobs.evaluate(bib, [text], how="parse0", lib=True)
    r = recs[0]
    lib = bib.parse_string(text, parse_stack=[]) if rec["input"]["how"] != "default" else bib.parse_string(text)
    bad = lib_diff(r["lib"], r["exp"], observe_lib(lib, bib.model), raw_values=rec["input"]["how"] != "default")
    d = {k: v for k, v in r["diff"].items() if k in ("blocks", "content", "failed_carry")}
    return {"lib": bad, "blocks": d}, rec["expected"], bad is None and not d
