"""C10 — enclosing removal strips exactly one layer; adding back restores or re-encloses.

T1:  MC_Enclosing: every value of <= MaxLen tokens that the scanner can produce as a field or @string value (decided by
     composing with BibSplitter), plus a Python int and the empty value: StripOne, Restore, IntRule, and the re-parse law
     composed with the scanner (InvReparseBrace, InvReparseQuote).
T2:  every value x 8 option sets x {numeric, other} field key x {metadata kept, absent} x {entry field, @string} replayed
     on RemoveEnclosingMiddleware / AddEnclosingMiddleware; the re-parse law through write_string and parse_string.
T3:  values harvested from random parsed documents.
"""
from __future__ import annotations

import random

from .. import core, docgen

SPELL = [
    {"LB": "{", "RB": "}", "QT": '"', "CM": ",", "EQ": "=", "SP": " ", "W": "ab", "D": "12", "H": "#", "ESC": "\\}"},
    {"LB": "{", "RB": "}", "QT": '"', "CM": ",", "EQ": "=", "SP": "\t \n", "W": "é.x", "D": "007", "H": "#", "ESC": "\\,"},
    # blanks inside a value are content: a CR LF pair, a form feed and a no-break space come back as they were written
    {"LB": "{", "RB": "}", "QT": '"', "CM": ",", "EQ": "=", "SP": " \r\n\x0c\u00a0", "W": "x\r\ny", "D": "3", "H": "#", "ESC": "\\{"},
]
INT = 5


def conc(v, sp, of_int=False):
    if v == ["I"]:
        return INT
    if of_int:      # str(int) appears as the digit run "D" in the specification's result
        return "".join(str(INT) if k == "D" else sp[k] for k in v)
    return "".join(sp[k] for k in v)


_LL, _CALLS = {}, [0]


def _long_lived(key, make):
    """Every second request is answered with a long-lived middleware object (one per option set for the whole run): what a
    middleware does to a value is a function of that value and of the record on its block, not of earlier work."""
    _CALLS[0] += 1
    if _CALLS[0] % 2:
        return make()
    if key not in _LL:
        _LL[key] = make()
    return _LL[key]


def mw_remove(bib, inplace):
    return _long_lived(("remove", inplace), lambda: bib.middlewares.RemoveEnclosingMiddleware(allow_inplace_modification=inplace))


def mw_add(bib, o, inplace):
    return _long_lived(("add", o["reuse"], o["encInts"], o["def"], inplace),
                       lambda: bib.middlewares.AddEnclosingMiddleware(reuse_previous_enclosing=o["reuse"], enclose_integers=o["encInts"],
                                                                      default_enclosing=o["def"], allow_inplace_modification=inplace))


def mk_lib(bib, key, value, as_string):
    M = bib.model
    if as_string:
        return bib.Library([M.String("skey", value)])
    return bib.Library([M.Entry("article", "k", [M.Field("zz", "{other}"), M.Field(key, value)])])


def val_of(lib, key, as_string):
    b = lib.blocks[0]
    if as_string:
        return b.value
    return b.fields_dict[key].value


def same(a, b):
    return type(a) is type(b) and a == b


def check_value(bib, e, sp, inplace):
    """All clauses for one exported value; returns list of (clause, detail-dict)."""
    out = []
    v = e["v"]
    text = conc(v, sp)
    forms = []
    if v == ["I"]:
        forms = [False]
    else:
        if e["field"] or v == []:
            forms.append(False)
        if e["string"] or v == []:
            forms.append(True)
    for as_string in forms:
        for key in (("year", "title") if not as_string else ("-",)):
            numeric = key == "year"
            base = mk_lib(bib, key, text, as_string)
            stripped_lib = None
            if v != ["I"]:
                # --- strip exactly one layer ---
                try:
                    stripped_lib = mw_remove(bib, inplace).transform(mk_lib(bib, key, text, as_string))
                    got = val_of(stripped_lib, key, as_string)
                except Exception as ex:  # noqa
                    out.append(("strip_raised", {"value": text, "string": as_string, "exc": type(ex).__name__}))
                    continue
                want = conc(e["s"]["v"], sp)
                # a value ending in an escaped delimiter that looks like the closing one ("...\}" / "...\""): whether
                # that is "an outer pair" is ambiguous at character level (R4) - only the restore law is demanded
                ambiguous = bool(v) and v[-1] == "ESC" and sp["ESC"][-1] in '}"'
                if ambiguous:
                    pass
                elif not same(got, want):
                    out.append(("strip_one_layer", {"value": text, "string": as_string, "observed": got, "expected": want}))
                    continue
            for x in e["enc"]:
                if as_string and x["num"]:
                    continue          # the integer rule does not apply to @string values
                if (not as_string) and x["num"] != numeric:
                    continue
                if x["kept"] and stripped_lib is None:
                    continue
                o = {"reuse": x["reuse"], "encInts": x["encInts"], "def": x["def"]}
                try:
                    if x["kept"]:
                        src = mw_remove(bib, inplace).transform(mk_lib(bib, key, text, as_string))
                        if not inplace:
                            # a branch of the history: a copy-mode removal applied to src and thrown away is no
                            # event in src's history (its record stays that of ITS removal)
                            mw_remove(bib, False).transform(src)
                    else:
                        src = mk_lib(bib, key, text, as_string)
                    got = val_of(mw_add(bib, o, inplace).transform(src), key, as_string)
                except Exception as ex:  # noqa
                    out.append(("enclose_raised", {"value": text, "string": as_string, "key": key, "opts": o, "kept": x["kept"],
                                                  "exc": f"{type(ex).__name__}: {ex}"}))
                    continue
                want = conc(x["r"], sp, of_int=(v == ["I"]))
                if x["kept"] and bool(v) and v[-1] == "ESC" and sp["ESC"][-1] in '}"' and not x["reuse"]:
                    continue          # depends on the ambiguous strip above
                if not same(got, want):
                    clause = "restore" if (x["kept"] and x["reuse"]) else ("integer_rule" if v in (["D"], ["I"]) else "enclose")
                    out.append((clause, {"value": text, "string": as_string, "key": key, "opts": o, "kept": x["kept"],
                                         "observed": got, "expected": want}))
                    continue
                # the digit string became a Python int between removal and adding (what MonthIntMiddleware does): "integer
                # values (digit strings or ints)" are one thing - the record of the removed enclosing still decides
                if x["kept"] and v != ["I"] and e["s"]["v"] == ["D"] and not as_string:
                    try:
                        lib = mw_remove(bib, inplace).transform(mk_lib(bib, key, text, False))
                        f = next(f for f in lib.entries[0].fields if f.key == key)
                        if isinstance(f.value, str) and f.value.isascii() and f.value.isdigit() and str(int(f.value)) == f.value:
                            f.value = int(f.value)
                            got_i = val_of(mw_add(bib, o, inplace).transform(lib), key, False)
                            if not same(str(got_i), want) and not same(got_i, want):
                                out.append(("restore" if x["reuse"] else "integer_rule",
                                            {"value": text, "string": False, "key": key, "opts": o, "history": "remove, value becomes an int, add",
                                             "observed": got_i, "expected": want}))
                                continue
                    except Exception as ex:  # noqa
                        out.append(("enclose_raised", {"value": text, "key": key, "opts": o, "history": "remove, value becomes an int, add",
                                                      "exc": f"{type(ex).__name__}: {ex}"}))
                        continue
                # a second round on the SAME blocks: remove, add, remove, add gives what remove, add gave (whatever the
                # first round left on the blocks)
                if x["kept"] and not (bool(v) and v[-1] == "ESC" and sp["ESC"][-1] in '}"'):
                    try:
                        lib = mw_remove(bib, inplace).transform(mk_lib(bib, key, text, as_string))
                        lib = mw_add(bib, o, inplace).transform(lib)
                        lib = mw_remove(bib, inplace).transform(lib)
                        got2 = val_of(mw_add(bib, o, inplace).transform(lib), key, as_string)
                    except Exception as ex:  # noqa
                        out.append(("enclose_raised", {"value": text, "string": as_string, "key": key, "opts": o, "history": "remove, add, remove, add",
                                                      "exc": f"{type(ex).__name__}: {ex}"}))
                        continue
                    if not same(got2, want):
                        out.append(("restore" if x["reuse"] else "enclose",
                                    {"value": text, "string": as_string, "key": key, "opts": o, "history": "remove, add, remove, add",
                                     "observed": got2, "expected": want}))
                        continue
                # a field with a record followed by a field added after the removal (no record): the first is restored,
                # the second gets the default enclosing / integer rule - records do not carry over between fields
                if x["kept"] and x["reuse"] and not as_string and v != ["I"]:
                    xb = [y for y in e["enc"] if not y["kept"] and all(y[k] == x[k] for k in ("reuse", "encInts", "def", "num"))]
                    if xb:
                        key2 = "volume" if numeric else "note"
                        try:
                            lib = mw_remove(bib, inplace).transform(mk_lib(bib, key, text, False))
                            lib.entries[0].set_field(bib.model.Field(key2, text))
                            res = mw_add(bib, o, inplace).transform(lib)
                            got1, got2 = val_of(res, key, False), res.entries[0][key2]
                        except Exception as ex:  # noqa
                            out.append(("enclose_raised", {"value": text, "key": [key, key2], "opts": o, "exc": f"{type(ex).__name__}: {ex}"}))
                            continue
                        want2 = conc(xb[0]["r"], sp)
                        if not same(got1, want) or not same(got2, want2):
                            out.append(("restore" if not same(got1, want) else "enclose",
                                        {"value": text, "string": False, "key": [key, key2], "opts": o, "history": "remove, add a field, add enclosing",
                                         "observed": [got1, got2], "expected": [want, want2]}))
    # --- histories on one block: remove, remove, add(reuse): the record is the one of the LAST removal ---
    if v != ["I"]:
        for as_string in forms:
            key = "-" if as_string else "year"
            for x in e["rra"]:
                if as_string and x["num"]:
                    continue
                if (not as_string) and not x["num"]:
                    continue
                o = {"reuse": x["reuse"], "encInts": x["encInts"], "def": x["def"]}
                try:
                    lib = mk_lib(bib, key, text, as_string)
                    lib = mw_remove(bib, True).transform(lib)
                    lib = mw_remove(bib, inplace).transform(lib)
                    got = val_of(mw_add(bib, o, inplace).transform(lib), key, as_string)
                except Exception as ex:  # noqa
                    out.append(("enclose_raised", {"value": text, "string": as_string, "key": key, "opts": o, "history": "remove, remove, add",
                                                  "exc": f"{type(ex).__name__}: {ex}"}))
                    continue
                want = conc(x["r"], sp)
                if not same(got, want) and not (v[-1:] == ["ESC"] and sp["ESC"][-1] in '}"'):
                    out.append(("restore", {"value": text, "string": as_string, "key": key, "opts": o, "history": "remove, remove, add",
                                            "observed": got, "expected": want}))
    # --- the numeric-field list: year month volume number pages edition chapter issue, and nothing else ---
    if v in (["D"], ["I"]):
        for key in ("year", "month", "volume", "number", "pages", "edition", "chapter", "issue", "title", "editionissue", "Year", "issn"):
            numeric = key in ("year", "month", "volume", "number", "pages", "edition", "chapter", "issue")
            for x in e["enc"]:
                if x["kept"] or x["num"] != numeric:
                    continue
                o = {"reuse": x["reuse"], "encInts": x["encInts"], "def": x["def"]}
                try:
                    got = val_of(mw_add(bib, o, inplace).transform(mk_lib(bib, key, text, False)), key, False)
                except Exception as ex:  # noqa
                    out.append(("enclose_raised", {"value": text, "key": key, "opts": o, "exc": f"{type(ex).__name__}: {ex}"}))
                    continue
                want = conc(x["r"], sp, of_int=(v == ["I"]))
                if not same(got, want):
                    out.append(("integer_rule", {"value": text, "string": False, "key": key, "opts": o, "kept": False, "observed": got, "expected": want}))
    # --- re-parse law through the real writer and parser ---
    for dflt, flag in (("{", "rb"), ('"', "rq")):
        if not e[flag] or v == ["I"]:
            continue
        M = bib.model
        try:
            lib = bib.Library([M.Entry("article", "k", [M.Field("title", text)])])
            o = {"reuse": False, "encInts": True, "def": dflt}
            written = bib.write_string(mw_add(bib, o, inplace).transform(lib), unparse_stack=[])
            lib2 = bib.parse_string(written)
            ok = (len(lib2.blocks) == 1 and len(lib2.entries) == 1 and len(lib2.entries[0].fields) == 1
                  and lib2.entries[0].fields[0].key == "title" and lib2.entries[0].fields[0].value == text)
            obs = [[type(b).__name__, getattr(b, "raw", "")[:60]] for b in lib2.blocks]
            if ok:
                obs = "one entry, one field, same content"
        except Exception as ex:  # noqa
            ok, obs = False, f"{type(ex).__name__}: {ex}"
        if not ok:
            out.append(("reparse", {"value": text, "default": dflt, "observed": obs, "sig": None}))
    return out


_G = {}


def _chunk(lines):
    bib = _G["bib"]
    res = {"n": 0, "mism": [], "samples": []}
    for line in lines:
        e = core.parse_export(line)
        for vi, sp in enumerate(SPELL):
            for inplace in ((True, False) if vi == 0 else (False,)):
                res["n"] += 1
                for clause, d in check_value(bib, e, sp, inplace):
                    d["inplace"] = inplace
                    d["abstract"] = e["v"]
                    d["spelling"] = vi
                    res["mism"].append((clause, d))
        if not res["samples"] and len(e["v"]) >= 3 and e["s"]["k"] != "none":
            res["samples"].append({"value": conc(e["v"], SPELL[0]), "stripped": conc(e["s"]["v"], SPELL[0]), "kind": e["s"]["k"]})
    return res


def report(chk, clause, d):
    sig = d.pop("sig", None)
    chk.mismatch(clause, {"kind": "value", **{k: d[k] for k in d if k not in ("observed", "expected")}},
                 d.get("observed", d.get("exc")), d.get("expected", "law of Enclosing.tla"), signature=sig,
                 spec={"module": "Enclosing", "operator": clause}, kind="value")


def run(chk: core.Check):
    bib = core.import_repo()
    rnd = random.Random(chk.seed + 10)
    maxlen = 4 if chk.tier == "quick" else 5
    chk.extra["rule"] = (f"T2: every value of <= {maxlen} tokens producible by the scanner (field or @string) + int + empty x 8 "
                         "option sets x numeric/other key x metadata kept/absent x entry/@string x spellings; non-trivial = "
                         "distinct value")
    res = core.run_tlc("MC_Enclosing", f"INIT Init\nNEXT Next\nCONSTANT MaxLen = {maxlen}\nINVARIANT InvStripOne\n"
                       "INVARIANT InvRestore\nINVARIANT InvIntRule\nINVARIANT InvReparseBrace\nINVARIANT InvReparseQuote\n"
                       "CHECK_DEADLOCK FALSE\n", timeout=3000, heap="16g")
    chk.add_tlc(res, f"MC_Enclosing MaxLen={maxlen}: StripOne, Restore, IntRule, ReparseBrace, ReparseQuote")
    _G["bib"] = bib
    lines = list(res.raw_lines())
    outs = core.pmap(_chunk, core.chunks(lines, len(lines) // 64 + 1))
    n = sum(o["n"] for o in outs)
    if not lines or n == 0:
        raise core.MachineryError("MC_Enclosing exported nothing")
    chk.traces += n
    chk.evaluations += n
    chk.nontrivial.update(range(len(lines)))
    chk.clause("T2.value(strip, restore, enclose x options, integer rule, re-parse)", n)
    chk.exhaustive = True
    for o in outs:
        for s in o["samples"]:
            chk.sample(s)
        for clause, d in o["mism"]:
            report(chk, clause, d)
    # ---- T3: values harvested from parsed random documents: strip then restore, default-enclose then re-parse ----
    ndocs = 300 if chk.tier == "quick" else 5000
    t3 = 0
    for i in range(ndocs):
        d = docgen.random_doc(rnd, rnd.randint(1, 6))
        raw = bib.parse_string(d.text, parse_stack=[])
        for inplace in (False,):
            s1 = mw_remove(bib, inplace).transform(raw)
            o = {"reuse": True, "encInts": rnd.random() < 0.5, "def": rnd.choice(["{", '"'])}
            s2 = mw_add(bib, o, inplace).transform(s1)
            for b0, b1, b2 in zip(raw.blocks, s1.blocks, s2.blocks):
                pairs = []
                if hasattr(b0, "fields"):
                    pairs = [(f0.value, f1.value, f2.value, f0.key) for f0, f1, f2 in zip(b0.fields, b1.fields, b2.fields)]
                elif type(b0).__name__ == "String":
                    pairs = [(b0.value, b1.value, b2.value, "@string")]
                for v0, v1, v2, key in pairs:
                    t3 += 1
                    t = v0          # "restores the original value exactly": the value as the scanner produced it, blanks included
                    want1 = t[1:-1] if len(t) >= 2 and ((t[0] == "{" and t[-1] == "}") or (t[0] == '"' and t[-1] == '"')) else t
                    if v1 != want1:
                        report(chk, "strip_one_layer", {"value": v0, "key": key, "observed": v1, "expected": want1})
                    elif v2 != t:
                        report(chk, "restore", {"value": v0, "key": key, "opts": o, "observed": v2, "expected": t})
    chk.traces += t3
    chk.evaluations += t3
    chk.clause("T3.harvested_values(strip, restore)", t3)
    chk.assumptions += ["'one outer pair' is lexical: first and last character after strip(), length >= 2",
                        "the recorded kind is observed through behaviour (reuse=True must restore), not through the metadata layout",
                        "digit strings are ASCII digit runs"]


def replay(rec, chk):
    bib = core.import_repo()
    i, clause = rec["input"], rec["clause"]
    value = i["value"]
    inplace = i.get("inplace", False)
    as_string = i.get("string", False)
    key = i.get("key", "title") if not as_string else "-"
    exp = rec["expected"]
    try:
        if clause in ("strip_one_layer", "strip_raised"):
            got = val_of(mw_remove(bib, inplace).transform(mk_lib(bib, key, value, as_string)), key, as_string)
        elif clause == "reparse":
            M = bib.model
            lib = bib.Library([M.Entry("article", "k", [M.Field("title", value)])])
            o = {"reuse": False, "encInts": True, "def": i["default"]}
            lib2 = bib.parse_string(bib.write_string(mw_add(bib, o, inplace).transform(lib), unparse_stack=[]))
            ok = len(lib2.blocks) == 1 and len(lib2.entries) == 1 and [f.value for f in lib2.entries[0].fields] == [value]
            return [[type(b).__name__, (b.raw or "")[:60]] for b in lib2.blocks], "one entry, one field, same content", ok
        else:
            src = mw_remove(bib, inplace).transform(mk_lib(bib, key, value, as_string)) if i.get("kept") else mk_lib(bib, key, value, as_string)
            got = val_of(mw_add(bib, i["opts"], inplace).transform(src), key, as_string)
    except Exception as ex:  # noqa
        return f"{type(ex).__name__}: {ex}", exp, False
    return got, exp, same(got, exp)
