"""C04 — malformed blocks never damage neighbours: parsing resyncs at the next @block.

T1:  MC_Neighbour: for D1 in a pool of well-formed documents ending in a complete block, X over all token sequences
     (from 13 "in the middle of something" prefixes) and D2 in a pool of well-formed documents starting with a block:
     InvPrefix, InvSuffix; plus the lemmas PrefixStable and Resync of MC_Splitter.
T2:  every explored X concretised and parsed as D1+X+"\\n"+D2 for all pool pairs; the same equalities are required
     of the real parser (blocks of D1 unchanged; blocks of D2 as on their own, lines shifted).
T3:  random derivations as D1/D2 with random truncations/corruptions of derivations as X; plain concatenations.
"""
from __future__ import annotations

import random

from .. import bibtok, core, docgen, splitobs, splitpipe

POOL = {
    1: [],
    2: ["ATE", "LB", "W1", "RB"],
    3: ["ATE", "LB", "W1", "CM", "W2", "EQ", "LB", "W1", "RB", "RB"],
    4: ["ATS", "LB", "W1", "EQ", "QT", "W2", "QT", "RB"],
    5: ["ATC", "LB", "W1", "SP", "W2", "RB"],
    6: ["ATP", "LB", "QT", "W1", "QT", "RB"],
}
POOL[7] = POOL[3] + ["NL"] + POOL[4]
POOL[8] = ["ATE", "LB", "W2", "CM", "NL", "SP", "W1", "EQ", "W1", "CM", "NL", "RB"]
POOL[9] = ["W1", "NL"] + POOL[2]
POOL[10] = POOL[2] + ["NL", "W2", "SP", "EQ", "NL"] + POOL[3]
D1SEL = [1, 2, 3, 7, 9, 10]
D2SEL = [2, 3, 4, 5, 6, 7, 8]
NXPREF = 13


def cfg(maxx, d1sel):
    return f"""INIT Init
NEXT Next
CONSTANTS
 MaxX = {maxx}
 D1Sel = {core.tla_val(set(d1sel))}
 D2Sel = {core.tla_val(set(D2SEL))}
 XPrefSel = {core.tla_val(set(range(1, NXPREF + 1)))}
INVARIANT InvPrefix
INVARIANT InvSuffix
CHECK_DEADLOCK FALSE
"""


def strip_dup(obs):
    out = []
    for o in obs:
        o = dict(o)
        # a duplicate-key wrapper is the library's intended cross-block influence - when the block it refers to is a block
        # the library holds; a key "taken" by something inside a failed block is damage done by a malformed neighbour
        if o.pop("dup", None):
            if o.get("dup_prev_held") is False:
                o["flagged_duplicate_of_a_block_the_library_does_not_hold"] = True
            if o.get("dup_same_key") is False:
                o["flagged_duplicate_of_a_block_with_another_key"] = True
            if o.get("dup_prev_held") and o.get("dup_prev_before") is False:
                o["flagged_duplicate_of_a_LATER_block"] = True          # first wins: text that follows cannot take a key away
        o.pop("dup_key", None)
        o.pop("dup_prev_held", None)
        o.pop("dup_same_key", None)
        o.pop("dup_prev_before", None)
        out.append(o)
    return out


def shift(obs, lines):
    out = []
    for o in obs:
        o = dict(o)
        o["line"] = o["line"] + lines
        if "fields" in o:
            o["fields"] = [[f[0], f[1], f[2] + lines] for f in o["fields"]]
        out.append(o)
    return out


def prefix_only(bib, d1: str, x: str, how: str = "split"):
    """First sentence of the statement on its own: D1 followed by arbitrary text and nothing else (X ending the input with
    or without a newline)."""
    r1, a = splitobs.run_split(bib, d1, how)
    if r1:
        return ("raised", r1, None, None)
    a = strip_dup(a)
    for tail in (x, x + "\n"):
        r0, pre = splitobs.run_split(bib, d1 + tail, how)
        if r0:
            return ("raised", r0, None, None)
        if how == "default" and any(o.get("dup") and o.get("dup_prev_held") and o.get("dup_same_key") for o in pre):
            continue
        if strip_dup(pre)[:len(a)] != a:
            return ("prefix_blocks_changed", "blocks of the well-formed prefix differ when text follows (no block after it)",
                    [[o["cls"], o["raw"], o["line"]] for o in pre[:len(a)]], [[o["cls"], o["raw"], o["line"]] for o in a])
    return None


def neighbours(bib, d1: str, x: str, d2: str, how: str = "split"):
    """Returns None or (clause, detail, observed, expected)."""
    whole = d1 + x + "\n" + d2
    r, big = splitobs.run_split(bib, whole, how)
    r1, a = splitobs.run_split(bib, d1, how)
    r2, b = splitobs.run_split(bib, d2, how)
    if r or r1 or r2:
        return ("raised", r or r1 or r2, None, None)
    if how == "default" and any(o.get("dup") and o.get("dup_prev_held") and o.get("dup_same_key") for o in big):
        return None       # a genuine duplicate is (intentionally) left untransformed by the stack: not comparable block by block
    big, a, b = strip_dup(big), strip_dup(a), strip_dup(b)
    if big[:len(a)] != a:
        return ("prefix_blocks_changed", "blocks of the well-formed prefix differ when text follows",
                [[o["cls"], o["raw"], o["line"]] for o in big[:len(a)]], [[o["cls"], o["raw"], o["line"]] for o in a])
    want = shift(b, (d1 + x + "\n").count("\n"))
    got = big[len(big) - len(b):] if b else []
    if len(big) < len(b) or got != want:
        return ("suffix_blocks_changed", "blocks after the resync point differ from parsing them on their own",
                [[o["cls"], o["raw"], o["line"]] for o in got], [[o["cls"], o["raw"], o["line"]] for o in want])
    return None


_G = {}


def _chunk(lines):
    bib = _G["bib"]
    res = {"n": 0, "skipped": 0, "mism": [], "samples": []}
    for line in lines:
        e = core.parse_export(line)
        xn = [bibtok.NAME_OF_W[w] for w in e["w"]]
        rnd = random.Random(hash((_G["seed"], tuple(e["w"]))) & 0xFFFFFFFF)
        for v in range(_G["nvar"]):
            for i in _G["d1"]:
                for j in _G["d2"]:
                    names = POOL[i] + xn + ["NL"] + POOL[j]
                    text, spans = bibtok.gamma(names, random.Random(rnd.random()), v)
                    if bibtok.roundtrips(names, text) is None:
                        res["skipped"] += 1
                        continue
                    c1 = spans[len(POOL[i]) - 1][1] if POOL[i] else 0
                    c2 = spans[len(POOL[i]) + len(xn)][1]
                    d1, x, d2 = text[:c1], text[c1:c2 - 1], text[c2:]
                    res["n"] += 1
                    bad = (prefix_only(bib, d1, x) if j == _G["d2"][0] else None) or neighbours(bib, d1, x, d2)
                    if bad:
                        res["mism"].append({"clause": bad[0], "detail": bad[1], "d1": d1, "x": x, "d2": d2, "obs": bad[2], "exp": bad[3]})
                    elif not res["samples"] and x and i == 3:
                        res["samples"].append({"D1": d1, "X": x, "D2": d2})
    return res


def report(chk, m):
    chk.mismatch(m["clause"], {"kind": "triple", "d1": m["d1"], "x": m["x"], "d2": m["d2"]},
                 {"detail": m["detail"], "blocks": m["obs"]}, {"blocks": m["exp"]},
                 spec={"module": "MC_Neighbour", "operator": "PrefixOK/SuffixOK"}, kind="triple")


def corrupt(rnd, text):
    ops = rnd.randint(1, 3)
    for _ in range(ops):
        if not text:
            break
        k = rnd.choice(["cut", "del", "ins", "cuthead"])
        p = rnd.randrange(len(text))
        if k == "cut":
            text = text[:p]
        elif k == "cuthead":
            text = text[p:]
        elif k == "del":
            text = text[:p] + text[p + 1:]
        else:
            text = text[:p] + rnd.choice(['{', '}', '"', ',', '=', '@', '\\', '\n', '@x{', ' ']) + text[p:]
    return text


def block_doc(rnd, n):
    """A derivation that starts with a block (at a line start) and ends in a complete block."""
    d = docgen.Doc()
    for i in range(n):
        kind = rnd.choices(["entry", "string", "preamble", "comment"], [6, 2, 1, 1])[0]
        if kind == "entry":
            docgen.gen_entry(d, rnd, "k%d_%d" % (i, rnd.randint(0, 99)))
        elif kind == "string":
            docgen.gen_string(d, rnd, "s%d_%d" % (i, rnd.randint(0, 99)))
        elif kind == "preamble":
            docgen.gen_preamble(d, rnd)
        else:
            docgen.gen_comment(d, rnd)
        if i < n - 1:
            docgen.gen_gap(d, rnd)
            if not d.text.endswith("\n"):
                d.add("\n")
    return d.text


def run(chk: core.Check):
    bib = core.import_repo()
    rnd = random.Random(chk.seed + 4)
    chk.extra["rule"] = ("T2: every X explored by MC_Neighbour (13 prefixes x suffixes <= MaxX) x 6 D1 x 7 D2 x spellings; "
                         "T3: random derivations with corrupted/truncated derivations in between; non-trivial = distinct triple")
    maxx, nvar, nrand = (3, 1, 4000) if chk.tier == "quick" else (4, 1, 60000)
    res = core.run_tlc("MC_Neighbour", cfg(maxx, D1SEL), timeout=3000, heap="16g")
    chk.add_tlc(res, f"MC_Neighbour MaxX={maxx}: InvPrefix, InvSuffix over {len(D1SEL)}x{len(D2SEL)} document pairs")
    lem = core.run_tlc("MC_Splitter", splitpipe.mc_cfg(3, range(1, splitpipe.NPREFIX + 1)), timeout=3000,
                       extra=[], heap="8g")
    chk.add_tlc(lem, "MC_Splitter lemmas PrefixStable, Resync (action properties)")
    # the model (T1) covers all 6 x 7 document pairs; the replay uses a covering subset of them per X
    _G.update(bib=bib, seed=chk.seed, nvar=nvar, d1=[2, 3, 7, 10] if chk.tier == "thorough" else [2, 3, 10],
              d2=[2, 3, 4, 7, 8] if chk.tier == "thorough" else [2, 3, 4, 8])
    lines = sorted(set(res.raw_lines()))
    if not lines:
        raise core.MachineryError("MC_Neighbour exported nothing")
    outs = core.pmap(_chunk, core.chunks(lines, len(lines) // 64 + 1))
    n = sum(o["n"] for o in outs)
    chk.traces += n
    chk.evaluations += n
    chk.nontrivial.update(range(n))
    chk.clause("T2.triple(prefix blocks, suffix blocks)", n)
    chk.extra["t2_X_sequences"] = len(lines)
    chk.extra["t2_spellings_not_roundtripping"] = sum(o["skipped"] for o in outs)
    chk.exhaustive = True
    for o in outs:
        for s in o["samples"]:
            chk.sample(s)
        for m in o["mism"]:
            report(chk, m)
    # ---- T3 ----
    t3 = 0
    for k in range(nrand):
        d1 = block_doc(rnd, rnd.randint(0, 4)) if rnd.random() < 0.8 else ""
        d2 = block_doc(rnd, rnd.randint(1, 4))
        mode = rnd.random()
        if mode < 0.2:
            x = ""
        elif mode < 0.7:
            x = corrupt(rnd, block_doc(rnd, rnd.randint(1, 2)))
        else:
            x = rnd.choice(splitpipe.garbage(rnd, 1, 30))
        if k % 40 == 7:
            # X is a damaged copy of the block D2 starts with (same key): a field key typed twice, a lost brace, a lost '='
            key = "k%d" % rnd.randint(0, 9)
            head = "@article{%s,\n  title = {T},\n  year = 2001\n}" % key
            x = rnd.choice(["@article{%s,\n  title = {T},\n  title = 2001\n}" % key, "@article{%s,\n  title = {T,\n  year = 2001\n}" % key,
                            "@article{%s,\n  title {T},\n  year = 2001\n}" % key, "@article{%s, a = 1, A = 2, a = 3}" % key])
            d2 = head + "\n" + d2
        if k % 40 == 9:
            # a block of D1 (or of X) whose key differs from the key of D2's first block only in letter case: another key
            key = "kq%d" % rnd.randint(0, 9)
            extra = "@article{%s, title = {T}}\n" % key.upper()
            d1, x = (d1 + ("\n" if d1 and not d1.endswith("\n") else "") + extra, x) if rnd.random() < 0.5 else (d1, extra + x)
            d2 = "@article{%s,\n  title = {t}\n}\n" % key + d2
        if k % 40 == 13:
            # D1 ends with a key-only entry; the middle text holds a fuller entry with the same key
            key = "stub%d" % rnd.randint(0, 9)
            d1 = d1 + ("\n" if d1 and not d1.endswith("\n") else "") + "@article{%s}\n" % key
            x = "@article{%s, title = {T}, year = 1}\n" % key + x
        if k % 40 == 11:
            # @string names that differ only in letter case, the later one in the middle text
            d1 = d1 + ("\n" if d1 and not d1.endswith("\n") else "") + "@string{acm = \"A\"}\n@article{e-ref, publisher = acm}\n"
            x = "@string{ACM = \"B\"}\n" + x
            # (D2 refers to no string of D1 or X: a reference resolved across the resync point is intended influence)
        bad = prefix_only(bib, d1, x) or neighbours(bib, d1, x, d2)
        if not bad and k % 4 == 3 or (not bad and k % 40 == 11):
            # the same through parse_string with the default stack (what the blocks hold after the middlewares ran)
            bad = prefix_only(bib, d1, x, "default") or neighbours(bib, d1, x, d2, "default")
            if bad:
                bad = (bad[0], "default stack: " + str(bad[1]), bad[2], bad[3])
        t3 += 1
        if bad:
            report(chk, {"clause": bad[0], "detail": bad[1], "d1": d1, "x": x, "d2": d2, "obs": bad[2], "exp": bad[3]})
    chk.traces += t3
    chk.evaluations += t3
    chk.clause("T3.triple", t3)
    chk.assumptions += ["D1 ends in a complete block (or is empty); D2 starts with '@type{' at a line start",
                        "duplicate-key wrapping by the library (intended cross-block influence) is ignored: blocks are compared unwrapped"]


def replay(rec, chk):
    bib = core.import_repo()
    i = rec["input"]
    bad = neighbours(bib, i["d1"], i["x"], i["d2"])
    return (bad[0] if bad else None), rec["clause"], bad is None
