"""C13 — name parts follow BibTeX's First/von/Last/Jr rules and keep every word once.

T1:  MC_NameParse, part "chars": every name of <= MaxLen character tokens over {U,L,Z,blank,~,comma,{,},\\U,\\l,\\'};
     part "words": every name of <= MaxWords words (case U/L/Z) x separators {blank, ~, comma}:
     InvErrors (strict-mode errors = declarative error conditions), InvParts (every top-level word once and in order,
     BibTeX case rule within InCaseScope, reference partition of the three forms).
T2:  every explored name concretised in several spellings -> parse_single_name_into_parts (strict) and SplitNameParts
     (invalid name -> MiddlewareErrorBlock keeping the original entry; library still writable).
T3:  the repository's BibTeX-derived corpus (validates the transcription: specification = corpus = code) and random
     names of 1-12 words -> Trace_NameParse.
"""
from __future__ import annotations

import random

from .. import core

SPELL = {"U": ["A", "É", "K"], "L": ["b", "é", "x"], "Z": ["1", ".", "-", "'", "\u00a0", "\x0c", "\u2003"], "W": [" ", "\t", "\n", "\r\n"], "T": ["~"], "C": [","],
         "{": ["{"], "}": ["}"], "EU": ["\\O", "\\A"], "EL": ["\\o", "\\i"], "EA": ["\\'", "\\`", "\\^"]}
ACCENTS = set("'`^\"=.")   # not '~': BibTeX and the code read a tie after a backslash as a word separator


def alpha_name(text):
    """text -> tokens (None if the name leaves the alphabet of C13: backslash before blank/brace/comma/end)."""
    toks, spans, i, n = [], [], 0, len(text)
    depth = 0
    while i < n:
        c = text[i]
        if c == "{":
            depth += 1
        elif c == "}":
            depth = max(0, depth - 1)
        if c == "\\":
            if i + 1 >= n:
                return None
            d = text[i + 1]
            if depth > 0 and d in " ~\t\r\n":
                # inside a group nothing separates words: a backslash before a blank or a tie is a character like any other
                toks.append("Z")
                spans.append((i, i + 1))
                i += 1
                continue
            if d.isalpha():
                toks.append("EU" if d.isupper() else "EL")
            elif d in ACCENTS:
                toks.append("EA")
            else:
                return None
            spans.append((i, i + 2))
            i += 2
            continue
        if c.isalpha():
            toks.append("U" if c.isupper() else "L")
        elif c in " \r\n\t":
            toks.append("W")
        elif c == "~":
            toks.append("T")
        elif c == ",":
            toks.append("C")
        elif c in "{}":
            toks.append(c)
        else:
            toks.append("Z")
        spans.append((i, i + 1))
        i += 1
    return toks, spans


def texts(text, spans, part):
    return [text[spans[w["r"][0] - 1][0]:spans[w["r"][1] - 2][1]] for w in part]


def expected_parts(text, spans, r):
    p = r["parts"]
    return {k: texts(text, spans, p[k]) for k in ("first", "von", "last", "jr")}


def run_real(bib, text):
    f = bib.middlewares.names.parse_single_name_into_parts
    try:
        p = f(text, strict=True)
        got = {"first": list(p.first), "von": list(p.von), "last": list(p.last), "jr": list(p.jr)}
        # the caller edits what it got; the answer for the same name must not depend on that (no shared state between calls)
        for part in (p.first, p.von, p.last, p.jr):
            part.append("<edited by the caller>")
        q = f(text, strict=True)
        again = {"first": list(q.first), "von": list(q.von), "last": list(q.last), "jr": list(q.jr)}
        if again != got:
            return {"err": False, "parts": again, "first_call": got, "note": "second call after the caller edited the first result"}
        return {"err": False, "parts": got}
    except bib.middlewares.names.InvalidNameError as ex:
        return {"err": True, "msg": str(ex)}
    except Exception as ex:  # noqa
        return {"err": "exception", "msg": f"{type(ex).__name__}: {ex}"}


_LL = {}


def via_middleware(bib, text):
    """SplitNameParts on an entry whose author list holds the name."""
    M = bib.model
    m = bib.middlewares
    names = [text] if len(text) % 2 else ["Valid de Name, Jr, First", text, "Another Valid"]
    e = M.Entry("article", "k", [M.Field("author", list(names)), M.Field("title", "t")], start_line=1, raw="@article{k}")
    if len(text) % 5 == 0:
        # the author field got its key late: built under another key, looked at, then renamed through the Field's setter
        e = M.Entry("article", "k", [M.Field("writer", list(names)), M.Field("title", "t")], start_line=1, raw="@article{k}")
        _ = ("author" in e, e.get("author"), e.fields_dict)
        e.fields[0].key = "author"
    lib = bib.Library([e])
    try:
        if len(text) % 3 == 0:
            # the entry has a past: it was split and merged before (other names, whatever those runs left on it stays),
            # then the author list was edited to the names under test
            e.fields[0].value = ["Old de Name, Jr, First"]
            sp, mg = m.SplitNameParts(allow_inplace_modification=bool(len(text) % 2)), m.MergeNameParts(allow_inplace_modification=True)
            lib = mg.transform(sp.transform(lib))
            e = lib.blocks[0]
            e.fields[0].value = list(names)
        if len(text) % 2 and "split" not in _LL:
            _LL["split"] = m.SplitNameParts(allow_inplace_modification=False)
        out = (_LL["split"] if len(text) % 2 else m.SplitNameParts(allow_inplace_modification=False)).transform(lib)
    except Exception as ex:  # noqa: an invalid name must become an error block, never an exception
        return {"err": "exception", "msg": f"{type(ex).__name__}: {ex}", "keeps_entry": False, "writable": False}
    b = out.blocks[0]
    if isinstance(b, M.MiddlewareErrorBlock):
        inner = b.ignore_error_block
        keeps = isinstance(inner, M.Entry) and inner.key == "k" and [f.value for f in inner.fields if f.key == "author"] == [names] and [f.value for f in inner.fields if f.key == "title"] == ["t"]
        try:
            bib.write_string(out)
            writable = True
        except Exception:  # noqa
            writable = False
        return {"err": True, "keeps_entry": keeps, "writable": writable}
    try:
        p = next(f.value for f in b.fields if f.key == "author")[0 if len(names) == 1 else 1]
    except Exception as ex:  # noqa
        return {"err": False, "parts": {"first": [], "von": [], "last": [], "jr": [], "not_split": f"{type(ex).__name__}: {ex}"}}
    if not hasattr(p, "first"):
        return {"err": False, "parts": {"first": [], "von": [], "last": [], "jr": [], "not_split": repr(p)}}
    return {"err": False, "parts": {"first": list(p.first), "von": list(p.von), "last": list(p.last), "jr": list(p.jr)}}


_G = {}


def _chunk(lines):
    bib = _G["bib"]
    res = {"n": 0, "mism": [], "samples": []}
    for line in lines:
        e = core.parse_export(line)
        rnd = random.Random(hash((_G["seed"], tuple(e["s"]))) & 0xFFFFFFFF)
        for v in range(_G["nvar"]):
            pieces = [SPELL[t][0] if v == 0 else rnd.choice(SPELL[t]) for t in e["s"]]
            text = "".join(pieces)
            spans, pos = [], 0
            for p in pieces:
                spans.append((pos, pos + len(p)))
                pos += len(p)
            res["n"] += 1
            got = run_real(bib, text)
            want_err = e["r"]["err"] != ""
            if got["err"] != want_err:
                res["mism"].append(("invalid_name_reported" if want_err else "valid_name_rejected", text, got, {"err": e["r"]["err"] or False}))
                continue
            if not want_err:
                want = expected_parts(text, spans, e["r"])
                if got["parts"] != want:
                    lost = sorted(sum(got["parts"].values(), [])) != sorted(sum(want.values(), []))
                    res["mism"].append(("words_kept_once" if lost else "part_assignment", text, got["parts"], want))
                    continue
            if v == 0:
                mw = via_middleware(bib, text)
                if mw["err"] != want_err or (want_err and not (mw["keeps_entry"] and mw["writable"])) or \
                        (not want_err and mw["parts"] != expected_parts(text, spans, e["r"])):
                    res["mism"].append(("middleware_error_block", text, mw, {"err": want_err}))
        if not res["samples"] and e["r"]["err"] == "" and len(e["s"]) >= 5 and e["r"]["parts"]["von"]:
            res["samples"].append({"tokens": e["s"], "name": text, "parts": expected_parts(text, spans, e["r"])})
    return res


def report(chk, clause, text, got, want):
    chk.mismatch(clause, {"kind": "name", "text": text}, got, want, spec={"module": "NameParse", "operator": "Parse/PartsOK"}, kind="name")


def random_name(rnd):
    up = ["Knuth", "Donald", "E.", "Jean", "{Foo Bar}", "{\\'E}douard", "\\'Etienne", "Å", "III", "AA", "{\\OE}uvre", "O'Neil", "X-Y",
          "{Barnes and Noble}", "{Simon AND Schuster, Inc.}", "{Hewlett\\ Packard}", "Jo{\\~a}o", "Mu{\\~n}oz", "{a\\\tb}"]
    lo = ["de", "la", "van", "der", "von", "{\\'e}s", "\\'e", "d'", "bb", "dd", "{de Geus and sons}"]
    zz = ["{von}", "12", "{AA}", "{}", "-", "{\\relax}", "...", "\u00a0x", "x\u00a0", "\x0cJean\u2003", "\x0b"]
    n = rnd.randint(1, 12)
    ws = [rnd.choice(up * 3 + lo * 2 + zz) for _ in range(n)]
    seps = [rnd.choice([" ", " ", " ", "~", "  ", "\t"]) for _ in range(n - 1)]
    ncomma = rnd.choice([0, 0, 1, 1, 2, 3])
    for _ in range(ncomma):
        if seps:
            seps[rnd.randrange(len(seps))] = rnd.choice([", ", ",", " , "])
    out = ws[0]
    for s, w in zip(seps, ws[1:]):
        out += s + w
    if rnd.random() < 0.1:
        out += rnd.choice([",", " }", "{", " {x"])
    return out


def run(chk: core.Check):
    bib = core.import_repo()
    rnd = random.Random(chk.seed + 13)
    mc, mw, nvar, nrand = (5, 5, 2, 3000) if chk.tier == "quick" else (6, 6, 3, 60000)
    chk.extra["rule"] = (f"T2: every name of <= {mc} character tokens over 11 classes and every name of <= {mw} words x 3 cases x 3 "
                         f"separators, {nvar} spellings; T3: the repository's BibTeX-derived corpus and random names of 1-12 "
                         "words; non-trivial = distinct token sequence / name")
    _G.update(bib=bib, seed=chk.seed, nvar=nvar)
    for part, maxlen in (("chars", mc), ("words", mw)):
        res = core.run_tlc("MC_NameParse", f"INIT Init\nNEXT Next\nCONSTANTS\n MaxLen = {maxlen}\n Part = \"{part}\"\nINVARIANT InvErrors\n"
                                           "INVARIANT InvParts\nCHECK_DEADLOCK FALSE\n", timeout=3000, heap="16g")
        chk.add_tlc(res, f"MC_NameParse part {part} MaxLen={maxlen}: InvErrors, InvParts")
        lines = list(res.raw_lines())
        outs = core.pmap(_chunk, core.chunks(lines, len(lines) // 64 + 1))
        n = sum(o["n"] for o in outs)
        if n != nvar * res.exported or n == 0:
            raise core.MachineryError("MC_NameParse export/replay mismatch")
        chk.traces += n
        chk.evaluations += n
        chk.nontrivial.update(range(len(chk.nontrivial), len(chk.nontrivial) + res.exported))
        chk.clause(f"T2.{part}(errors, parts; SplitNameParts error block)", n)
        for o in outs:
            for s in o["samples"]:
                chk.sample(s)
            for m in o["mism"]:
                report(chk, *m)
    chk.exhaustive = True
    # ---- T3: corpus + random names ----
    names, origin = [], []
    try:
        import importlib
        import sys
        sys.path.insert(0, core.REPO)
        tn = importlib.import_module("tests.middleware_tests.test_names")
        for name, exp in tn.REGULAR_NAME_PARTS_PARSING_TEST_CASES:
            names.append(name)
            origin.append(("corpus", exp))
    except Exception as ex:  # the corpus is a bonus: its absence is not a failure of the machinery
        chk.extra["corpus"] = f"not available: {type(ex).__name__}"
    for _ in range(nrand):
        names.append(random_name(rnd))
        origin.append(("random", None))
    cases, kept = [], []
    for i, nm in enumerate(names):
        a = alpha_name(nm)
        if a is None:
            continue
        cases.append({"id": len(cases), "s": a[0]})
        kept.append((nm, a[1], origin[i]))
    verdict = core.validate_traces("Trace_NameParse", cases, shards=16)
    for r in verdict.results:
        chk.add_tlc(r, "Trace_NameParse shard", count_states=False)
    byid = {x["id"]: x for x in verdict.notes if "id" in x}
    ncorpus = 0
    for i, (nm, spans, (src, exp)) in enumerate(kept):
        r = byid[i]
        if r["spec"]:
            raise core.MachineryError(f"NameParse specification violates its own clause {r['spec']} on {nm!r} (R5)")
        want_err = r["r"]["err"] != ""
        got = run_real(bib, nm)
        want = None if want_err else expected_parts(nm, spans, r["r"])
        if src == "corpus":
            ncorpus += 1
            if want_err or want != {k: list(exp.get(k, [])) for k in ("first", "von", "last", "jr")}:
                raise core.MachineryError(f"the transcription of BibTeX's rules disagrees with the BibTeX-derived corpus on {nm!r}: "
                                          f"spec {want} corpus {exp} (R5)")
        if got["err"] != want_err:
            report(chk, "invalid_name_reported" if want_err else "valid_name_rejected", nm, got, {"err": r["r"]["err"] or False})
        elif not want_err and got["parts"] != want:
            lost = sorted(sum(got["parts"].values(), [])) != sorted(sum(want.values(), []))
            report(chk, "words_kept_once" if lost else "part_assignment", nm, got["parts"], want)
    chk.traces += len(kept)
    chk.evaluations += len(kept)
    chk.clause("T3.names(corpus + random)", len(kept))
    chk.extra["corpus_cases_validated"] = ncorpus
    chk.extra["names_outside_alphabet_skipped"] = len(names) - len(kept)
    chk.assumptions += ["alphabet: backslash only before a letter or an accent sign (never before blank, brace, comma or at the end)",
                        "word case is compared within InCaseScope (no escape inside a group other than the one opening a special "
                        "character, no nested group)", "exception messages are not compared; the three error kinds are one 'invalid name'"]


def replay(rec, chk):
    bib = core.import_repo()
    text = rec["input"]["text"]
    got = run_real(bib, text)
    exp = rec["expected"]
    ok = (got.get("parts") == exp) if isinstance(exp, dict) and "first" in exp else (got["err"] == bool(exp.get("err")))
    return got, exp, ok
