"""C18 — LaTeX en/decoding touches only text values, round-trips, and contains errors.

T1:  MC_Latex: libraries of <= MaxBlocks blocks over every slot kind (str / int / list / NameParts / list of NameParts
     field values, @string values, other blocks) x every set of failing conversions: ScopeOK, ContainmentOK.
T2:  every (library, failing set) replayed on LatexEncodingMiddleware(encoder=probe) and
     LatexDecodingMiddleware(decoder=probe) - probes tag or raise - in place and in copy mode; scope and types also with
     the real converters under every constructor option.
T2': clause (iii), a contract on the third-party converter checked by conformance only (level: exploration for this
     clause): MC_LatexRT enumerates symbol-class sequences; each is concretised and Dec(Enc(t)) = t is checked on the
     real middlewares under the default and the keep_math / enclose_urls options; random longer texts likewise.
"""
from __future__ import annotations

import itertools
import random
import re

import zlib

from .. import core

ATOM = {"s1": "alpha é", "s2": "b & c", "s3": "50% of $x$"}


class Probe:
    def __init__(self, failing):
        self.failing = set(failing)

    class ProbeError(Exception):
        pass

    def _f(self, s):
        if s in self.failing:
            # "a conversion failure" is any exception of the converter, whatever its type
            if s not in ("alpha é", "b & c"):
                raise Probe.ProbeError()           # ... also one that carries no message at all (str(e) == "")
            # (messages with braces, percent signs and format fields: an error text is data, not a template)
            raise {"alpha é": ValueError, "b & c": KeyError}[s]("probe: cannot convert {" + s + "} {0} %s {x!r} }{")
        return "<" + s + ">"
    unicode_to_latex = _f
    latex_to_text = _f


def build_value(bib, vt, v):
    NP = bib.middlewares.NameParts
    if vt == "str":
        return ATOM[v]
    if vt == "int":
        return v
    if vt == "liststr":
        return [ATOM[x] for x in v]
    mk = lambda d: NP(first=[ATOM[x] for x in d["first"]], von=[ATOM[x] for x in d["von"]], last=[ATOM[x] for x in d["last"]], jr=[ATOM[x] for x in d["jr"]])  # noqa
    if vt == "np":
        return mk(v)
    return [mk(d) for d in v]


def conc(x):
    """expected value: atom -> text, <<"conv", atom>> -> tagged text"""
    if isinstance(x, str):
        return ATOM[x]
    if isinstance(x, list) and len(x) == 2 and x[0] == "conv":
        return "<" + ATOM[x[1]] + ">"
    raise core.MachineryError(f"bad expected value {x}")


def proj_value(bib, v):
    NP = bib.middlewares.NameParts
    if isinstance(v, NP):
        return {"first": list(v.first), "von": list(v.von), "last": list(v.last), "jr": list(v.jr)}
    if isinstance(v, list):
        return [proj_value(bib, x) for x in v]
    return v


def expected_value(bib, f):
    vt, v = f["vt"], f["v"]
    if vt == "str":
        return conc(v)
    if vt == "int":
        return v
    if vt == "liststr":
        return [ATOM[x] for x in v]
    one = lambda d: {k: [conc(x) for x in d[k]] for k in ("first", "von", "last", "jr")}  # noqa
    if vt == "np":
        return one(v)
    return [{k: [ATOM[x] for x in d[k]] for k in ("first", "von", "last", "jr")} for d in v]


def build_lib(bib, lib_abs):
    M = bib.model
    blocks = []
    for i, b in enumerate(lib_abs):
        if b["t"] == "entry":
            blocks.append(M.Entry("article", f"key{i}", [M.Field(f["k"], build_value(bib, f["vt"], f["v"]), j) for j, f in enumerate(b["fields"])],
                                  start_line=i, raw=f"raw{i} é &"))
        elif b["t"] == "string":
            blocks.append(M.String(f"s{i} & é", ATOM[b["v"]], start_line=i, raw=f"raw{i} %"))
        else:
            blocks.append(M.Preamble("pre & é $x$", start_line=i, raw=f"raw{i}") if i % 2 else M.ImplicitComment("% c & é", start_line=i, raw=f"raw{i}"))
    return bib.Library(blocks)


def check_probe(bib, e, which, inplace):
    """Returns None or (clause, detail)."""
    M = bib.model
    m = bib.middlewares
    lib = build_lib(bib, e["lib"])
    probe = Probe(ATOM[a] for a in e["fail"])
    try:
        mw = m.LatexEncodingMiddleware(encoder=probe, allow_inplace_modification=inplace) if which == "enc" else \
            m.LatexDecodingMiddleware(decoder=probe, allow_inplace_modification=inplace)
        out = mw.transform(lib)
    except Exception as ex:  # noqa
        return "containment", f"raised {type(ex).__name__}: {ex}"
    if len(out.blocks) != len(e["out"]):
        return "scope", f"{len(out.blocks)} blocks for {len(e['out'])}"
    for i, (b, a, w) in enumerate(zip(out.blocks, e["lib"], e["out"])):
        if w["t"] == "mwerror":
            if not isinstance(b, M.MiddlewareErrorBlock):
                return "containment", f"block {i}: a failing conversion did not yield a MiddlewareErrorBlock but {type(b).__name__}"
            inner, wi = b.ignore_error_block, w["inner"]
        else:
            if isinstance(b, M.ParsingFailedBlock):
                return "containment", f"block {i}: unexpected {type(b).__name__}"
            inner, wi = b, w
        if a["t"] == "entry":
            if not isinstance(inner, M.Entry) or inner.key != f"key{i}" or inner.entry_type != "article" or inner.raw != f"raw{i} é &" \
                    or inner.start_line != i or [f.key for f in inner.fields] != [f["k"] for f in a["fields"]]:
                return "scope", f"block {i}: key/type/raw/start_line/field keys changed"
            for f, wf in zip(inner.fields, wi["fields"]):
                got, want = proj_value(bib, f.value), expected_value(bib, wf)
                if got != want:
                    clause = "types" if wf["vt"] in ("str", "np") and not _strs(got) else "scope"
                    return clause, f"block {i} field {f.key!r} ({wf['vt']}): {got!r} expected {want!r}"
        elif a["t"] == "string":
            if not isinstance(inner, M.String) or inner.key != f"s{i} & é" or inner.raw != f"raw{i} %":
                return "scope", f"block {i}: @string key/raw changed or block replaced by {type(inner).__name__}"
            want = conc(wi["v"])
            if inner.value != want:
                return ("types" if not isinstance(inner.value, str) else "scope"), f"block {i} @string value {inner.value!r} expected {want!r}"
        else:
            txt = getattr(inner, "value", None) or getattr(inner, "comment", None)
            if txt not in ("pre & é $x$", "% c & é") or inner.raw != f"raw{i}":
                return "scope", f"block {i}: a block that is neither entry nor @string changed: {txt!r}"
    return None


def _strs(v):
    if isinstance(v, str):
        return True
    if isinstance(v, dict):
        return all(isinstance(x, str) for k in v for x in v[k])
    return False


# ---------------------------------------------------------------------------
# clause (iii)
# ---------------------------------------------------------------------------
SYMS = {
    "LET": ["a", "Z", "q"], "DIG": ["5", "0"], "ACC": list("éüñçøßÅłąő"),
    "PUN": list(".,;:!?-()[]'/*+=@|"), "TEX": list("&%#_{}~\\<>") + ["$"],
    "URL": ["http://a.b/c", "https://example.org/path_x/file.html", "www.x.org/page", "https://x.org/a_b?c=d&e=f%20g", "www.x.org/~u",
            "http://a.b/c#frag", "https://a.b/{x}"],
    "MATH": ["$x^2$", "$a_b$", "$\\alpha$", "$a < b$", "$\\frac{1}{2}$", "$p = \\$5$", "$\\$$"],
    "WORD": ["Zürich", "naïve", "AT&T", "100%", "C#", "under_score", "{braces}", "a~b"],
}
EXCLUDED = ["--", "``", "''", "!`", "?`", "^", '"']
URL_RX = [re.compile(r"(https?://\S*\.\S*)"), re.compile(r"(www.\S*\.\S*)")]
URL_BAD = set("%&~{}$\\#^")


def in_domain(text, keep_math, literal_dollars=None):
    """R3: the alphabet of the statement and the sequences it excludes; plus two ambiguities that are not claims of the
    statement: a literal '$' next to math spans, and a backslash directly before '$'."""
    # a math span: from an unescaped '$' to the next unescaped '$' (an escaped '\$' may occur inside)
    plain = re.sub(r"(?<!\\)\$.*?[^\\]\$", " ", text) if keep_math else text
    if any(x in plain for x in EXCLUDED):
        return False
    if "\\$" in plain:
        return False
    nd = len(re.findall(r"(?<!\\)\$", text))
    if literal_dollars is not None and literal_dollars > 0 and nd > 1 and keep_math:
        return False      # a literal '$' together with any other '$' is read as (part of) a math span: ambiguous
    if nd % 2 == 1 and nd > 1:
        return False
    if not keep_math and nd:          # without keep_math a math span is plain text containing '^' etc.
        return False
    return True


def url_signature(text, enclose_urls):
    """Known finding: a URL containing TeX-special characters is wrapped in \\url{...} unescaped."""
    if not enclose_urls:
        return None
    for rx in URL_RX:
        for m in rx.finditer(text):
            if set(m.group(1)) & URL_BAD:
                return {"id": "C18-url-with-tex-special-characters"}
    return None


LOSSY_LETTERS = "\u0126\u0127\u0138\u013f\u0140\u0149\u0166\u0167\u0170\u0171"   # Ħ ħ ĸ Ŀ ŀ ŉ Ŧ ŧ Ű ű


def lossy_letter_signature(text, r):
    """Known finding: ten accented Latin letters for which the third-party tables are not inverse to each other.  Matched
    only when the text holds one of them and the result differs from the text in nothing but those letters' positions."""
    if not any(c in LOSSY_LETTERS for c in text) or "error_block" in r:
        return None
    import re as _re
    pat = "".join("(?s:.{1,3})" if c in LOSSY_LETTERS else _re.escape(c) for c in text)
    for got in (r.get("field"), r.get("string")):
        if not isinstance(got, str) or not _re.fullmatch(pat, got):
            return None
    return {"id": "C18-letters-lossy-in-pylatexenc-tables"}


_LONG_LIVED = {}


def roundtrip(bib, text, eo, history=False):
    m = bib.middlewares
    M = bib.model
    lib = bib.Library([M.Entry("article", "k", [M.Field("title", text)]), M.String("s", text)])
    if history:
        # (the blocks come from a parse in which both values were bare numbers - the default stack has left its records on
        # them - and were given their text later)
        lib = bib.parse_string("@article{k, title = 2020}\n@string{s = 2021}\n")
        if [type(b).__name__ for b in lib.blocks] != ["Entry", "String"]:
            raise core.MachineryError("C18 history prelude: unexpected parse")
        # the blocks have been decoded and encoded before (they carry whatever those runs left on them) and were
        # edited since: the round trip law is about the text they hold now
        lib.blocks[0].fields[0].value = lib.blocks[1].value = "caf\\'e \\& co"
        lib = m.LatexDecodingMiddleware(allow_inplace_modification=True).transform(lib)
        lib = m.LatexEncodingMiddleware(allow_inplace_modification=True).transform(lib)
        lib = m.LatexDecodingMiddleware(allow_inplace_modification=True).transform(lib)
        if not isinstance(lib.blocks[0], M.Entry) or not isinstance(lib.blocks[1], M.String):
            # (the prelude text converts fine on its own: error blocks here are a verdict, not a machinery failure)
            return {"error_block": [type(b).__name__ for b in lib.blocks], "encoded": None, "in": "the decode/encode past of the blocks"}
        lib.blocks[0].fields[0].value = text
        lib.blocks[1].value = text
    # half of the texts go through long-lived middleware objects (one per option set for the whole run), half through fresh
    # ones: a conversion is a function of the text, not of what the object converted before
    if len(text) % 2:
        key = tuple(sorted(eo.items()))
        if key not in _LONG_LIVED:
            _LONG_LIVED[key] = (m.LatexEncodingMiddleware(allow_inplace_modification=False, **eo), m.LatexDecodingMiddleware(allow_inplace_modification=False))
        emw, dmw = _LONG_LIVED[key]
    else:
        emw, dmw = m.LatexEncodingMiddleware(allow_inplace_modification=False, **eo), m.LatexDecodingMiddleware(allow_inplace_modification=False)
    if len(text) % 2:
        # the long-lived objects have converted THIS library before, when its blocks held other text
        keep_vals = (lib.blocks[0].fields[0].value, lib.blocks[1].value)
        lib.blocks[0].fields[0].value = lib.blocks[1].value = "warm-up \u00e9 & 100%"
        dmw.transform(emw.transform(lib))
        lib.blocks[0].fields[0].value, lib.blocks[1].value = keep_vals
    enc = emw.transform(lib)
    dec = dmw.transform(enc)
    b0, b1 = dec.blocks[0], dec.blocks[1]
    if not isinstance(b0, M.Entry) or not isinstance(b1, M.String):
        return {"error_block": [type(b0).__name__, type(b1).__name__], "encoded": None}
    return {"field": b0["title"], "string": b1.value, "encoded": enc.blocks[0]["title"] if isinstance(enc.blocks[0], M.Entry) else None}


def check_rt(chk, bib, text, eo):
    try:
        r = roundtrip(bib, text, eo, history=bool(zlib.crc32(text.encode("utf-8", "replace")) & 1))
    except core.MachineryError:
        raise
    except Exception as ex:  # noqa
        chk.mismatch("containment", {"kind": "text", "text": text, "encoder_options": eo}, f"raised {type(ex).__name__}: {ex}", "no exception",
                     kind="text")
        return
    if r.get("field") != text or r.get("string") != text:
        chk.mismatch("round_trip", {"kind": "text", "text": text, "encoder_options": eo}, r, {"field": text, "string": text},
                     signature=url_signature(text, eo.get("enclose_urls", True) is not False) or lossy_letter_signature(text, r),
                     spec={"module": "MC_LatexRT", "operator": "Dec(Enc(t)) = t"}, kind="text")


def run(chk: core.Check):
    bib = core.import_repo()
    rnd = random.Random(chk.seed + 18)
    maxb, maxsym, nrand = (2, 3, 1500) if chk.tier == "quick" else (3, 4, 30000)
    chk.extra["rule"] = (f"T2: every library of <= {maxb} blocks over 8 block templates x 8 failing sets x encoder/decoder probes x in "
                         f"place/copy; T2': every sequence of <= {maxsym} symbol classes x join kinds, several spellings, 4 encoder option "
                         "sets; random longer texts; non-trivial = distinct case")
    res = core.run_tlc("MC_Latex", f"INIT Init\nNEXT Next\nCONSTANT MaxBlocks = {maxb}\nINVARIANT InvScope\nINVARIANT InvContainment\n"
                                   "CHECK_DEADLOCK FALSE\n", timeout=3000)
    chk.add_tlc(res, f"MC_Latex MaxBlocks={maxb}: ScopeOK, ContainmentOK")
    n = 0
    for e in res.json_lines():
        for which in ("enc", "dec"):
            for inplace in (True, False):
                n += 1
                bad = check_probe(bib, e, which, inplace)
                chk.note_case((core.canon(e["lib"]), tuple(e["fail"]), which, inplace))
                if bad:
                    chk.mismatch(bad[0], {"kind": "probe", "lib": e["lib"], "fail": e["fail"], "middleware": which, "inplace": inplace},
                                 bad[1], {"out": e["out"]}, spec={"module": "Latex", "operator": "Transform"}, kind="probe")
        if len(e["lib"]) == 2 and e["fail"] and len(chk.samples) < 1:
            chk.sample({"library": e["lib"], "failing": e["fail"], "expected": e["out"]})
    if n != 4 * res.exported or n == 0:
        raise core.MachineryError("MC_Latex export/replay mismatch")
    chk.traces += n
    chk.clause("T2.probe(scope, types, containment)", n)
    # scope/types with the real converters under every constructor option
    m = bib.middlewares
    doc = ("@string{s1 = \"Zürich & Co\"}\n@preamble{\"\\x & y\"}\n@comment{é & %}\n% free é & text\n"
           "@article{Kéy&1, title = {Über 50\\% & more $x^2$ http://a.b/c}, Author = {Jos{\\'e} Garc{\\'\\i}a and Ødegård, Å.}, year = 2001, note = {}}\n"
           "@book{k2, editor = {M{\\\"u}ller, J.}, month = jan}\n")
    variants = [("default", bib.parse_string(doc)),
                ("names split", bib.parse_string(doc, append_middleware=[m.NormalizeFieldKeys(), m.SeparateCoAuthors(), m.SplitNameParts()])),
                ("raw", bib.parse_string(doc, parse_stack=[]))]
    ctor = [("LatexEncodingMiddleware", dict(keep_math=km, enclose_urls=eu)) for km, eu in itertools.product([True, False, None], [True, False, None])]
    ctor += [("LatexDecodingMiddleware", dict(keep_braced_groups=kb, keep_math_mode=km)) for kb, km in itertools.product([True, False, None], [True, False, None])]
    nreal = 0
    from . import c07
    for label, lib in variants:
        for cls, opts in ctor:
            for inplace in (False,):
                nreal += 1
                before = c07.proj(lib, bib)
                try:
                    out = getattr(m, cls)(allow_inplace_modification=inplace, **opts).transform(lib)
                except Exception as ex:  # noqa
                    chk.mismatch("containment", {"kind": "real", "library": label, "middleware": cls, "options": opts}, f"raised {type(ex).__name__}: {ex}",
                                 "no exception", kind="real")
                    continue
                after = c07.proj(out, bib)
                bad = scope_diff(before, after)
                if bad:
                    chk.mismatch(bad[0], {"kind": "real", "library": label, "middleware": cls, "options": opts}, bad[1],
                                 "only string field values, name-part strings and @string values change, and stay strings", kind="real")
    # an entry that holds several fields under one key (hand-built, or salvaged from a duplicate-field block): every field
    # value is converted, each in its place
    for inplace in (True, False):
        nreal += 1
        M = bib.model
        texts = ["50% of a_b & c", "M\u00fcller #2", "third x~y", "T_1"]
        ent = M.Entry("misc", "dupkeys", [M.Field("note", texts[0]), M.Field("title", texts[3]), M.Field("note", texts[1]), M.Field("note", texts[2])])
        try:
            enc = m.LatexEncodingMiddleware(allow_inplace_modification=inplace).transform(bib.Library([ent]))
            dec = m.LatexDecodingMiddleware(allow_inplace_modification=inplace).transform(enc)
            got = [f.value for f in dec.blocks[0].fields] if isinstance(dec.blocks[0], M.Entry) else type(dec.blocks[0]).__name__
        except Exception as ex:  # noqa
            got = f"raised {type(ex).__name__}"
        want = [texts[0], texts[3], texts[1], texts[2]]
        if got != want:
            chk.mismatch("round_trip", {"kind": "real", "library": "one entry with three fields under the key 'note'", "middleware": "encode then decode",
                                        "options": {"inplace": inplace}}, got, want, kind="real")
    # the real converter failing on its own (a group nested deeper than its recursion allows): contained as well
    for depth in (40, 400, 2000):
        for cls in ("LatexDecodingMiddleware", "LatexEncodingMiddleware"):
            for inplace in (True, False):
                nreal += 1
                M = bib.model
                ent = M.Entry("article", "deep", [M.Field("title", "{" * depth + "x" + "}" * depth), M.Field("note", "ok")])
                lib = bib.Library([M.ImplicitComment("c"), ent, M.Entry("book", "fine", [M.Field("title", "t")])])
                try:
                    out = getattr(m, cls)(allow_inplace_modification=inplace).transform(lib)
                    b1 = out.blocks[1]
                    inner = b1.ignore_error_block if isinstance(b1, M.MiddlewareErrorBlock) else b1
                    ok = (len(out.blocks) == 3 and isinstance(inner, M.Entry) and inner.key == "deep" and isinstance(out.blocks[2], M.Entry)
                          and out.blocks[2].key == "fine" and out.blocks[2]["title"] == "t" and isinstance(out.blocks[0], M.ImplicitComment))
                    obs = [type(b).__name__ for b in out.blocks]
                except Exception as ex:  # noqa
                    ok, obs = False, f"raised {type(ex).__name__}"
                if not ok:
                    chk.mismatch("containment", {"kind": "real", "library": f"title nested {depth} deep", "middleware": cls, "options": {"inplace": inplace}},
                                 obs, "the entry (converted, or inside a MiddlewareErrorBlock) between its untouched neighbours; no exception", kind="real")
    chk.traces += nreal
    chk.clause("T2.real_converter(scope, types)", nreal)
    chk.exhaustive = True
    # ---- clause (iii) ----
    rt = core.run_tlc("MC_LatexRT", f"INIT Init\nNEXT Next\nCONSTANT MaxSym = {maxsym}\nCHECK_DEADLOCK FALSE\n", timeout=3000)
    chk.add_tlc(rt, f"MC_LatexRT MaxSym={maxsym} (enumeration of symbol-class sequences)")
    eopts = [{}, {"keep_math": False}, {"enclose_urls": False}, {"keep_math": False, "enclose_urls": False}]
    nrt = skipped = 0
    for e in rt.json_lines():
        for v in range(2):
            text, lit = "", 0
            for c, j in e["t"]:
                sym = SYMS[c][0] if v == 0 else rnd.choice(SYMS[c])
                lit += 1 if (c == "TEX" and sym == "$") else 0
                text += ("" if not text else (" " if j == "sp" else "")) + sym
            for eo in eopts:
                if not in_domain(text, eo.get("keep_math", True), lit):
                    skipped += 1
                    continue
                nrt += 1
                check_rt(chk, bib, text, eo)
    allsyms = [s for c in SYMS for s in SYMS[c]]
    for _ in range(nrand):
        k = rnd.randint(1, 12)
        parts = [rnd.choice(allsyms) if rnd.random() < 0.7 else "".join(rnd.choice(allsyms[:40]) for _ in range(rnd.randint(1, 4))) for _ in range(k)]
        text = " ".join(parts)
        lit = sum(1 for x in parts if x == "$")
        eo = rnd.choice(eopts)
        if not in_domain(text, eo.get("keep_math", True), lit):
            skipped += 1
            continue
        nrt += 1
        check_rt(chk, bib, text, eo)
    # fixed witnesses of the two known findings (every run meets them, whatever the seed)
    for text in ("see https://x.org/a_b?c=d&e=f%20g", "www.x.org/~u", "\u0170"):
        nrt += 1
        check_rt(chk, bib, text, {})
    # texts that begin or end with blanks or line breaks (a multi-line abstract, a padded value)
    for text in (" padded ", "\n  a multi-line\n  abstract\n", "trailing blank ", "\tx", "a\n", "  ", " é & b "):
        for eo in ({}, {"keep_math": False, "enclose_urls": False}):
            nrt += 1
            check_rt(chk, bib, text, eo)
    # every accented Latin letter (Latin-1 Supplement, Extended-A, Extended-B, Extended Additional), one at a time
    import unicodedata
    for cp in list(range(0xC0, 0x250)) + list(range(0x1E00, 0x1F00)):
        c = chr(cp)
        if not unicodedata.category(c).startswith("L"):
            continue
        for text, eo in ((c, {}), (f"a{c}b {c}.", {"keep_math": False, "enclose_urls": False})):
            nrt += 1
            check_rt(chk, bib, text, eo)
    chk.traces += nrt
    chk.evaluations += nrt + n + nreal
    chk.clause("T2'.round_trip", nrt)
    chk.extra["round_trip_texts_outside_the_stated_alphabet_skipped"] = skipped
    chk.extra["clause_iii_level"] = "exploration (contract on the third-party converter, checked by conformance only)"
    chk.assumptions += ["alphabet of the statement; excluded: '--', two back-ticks, two apostrophes, '!`', '?`', '^', '\"' (outside math), "
                        "a literal '$' together with any other '$' (it would be read as a math span), a backslash directly before '$'",
                        "a failing conversion yields a MiddlewareErrorBlock whose ignore_error_block is the entry (values that "
                        "converted may already be converted)", "the decoder is the default one for the round trip"]


def scope_diff(before, after):
    if len(before["blocks"]) != len(after["blocks"]):
        return "scope", "number of blocks changed"
    for i, (a, b) in enumerate(zip(before["blocks"], after["blocks"])):
        if b["cls"] == "MiddlewareErrorBlock" and a["cls"] != "MiddlewareErrorBlock":
            b = b["inner"]
        for k in ("cls", "raw", "line", "key", "entry_type"):
            if a.get(k) != b.get(k):
                return "scope", f"block {i}: {k} changed from {a.get(k)!r} to {b.get(k)!r}"
        if a["cls"] == "Entry":
            if [f[0] for f in a["fields"]] != [f[0] for f in b["fields"]] or [f[2] for f in a["fields"]] != [f[2] for f in b["fields"]]:
                return "scope", f"block {i}: field keys or lines changed"
            for fa, fb in zip(a["fields"], b["fields"]):
                va, vb = fa[1], fb[1]
                if va[0] != vb[0]:
                    return "types", f"block {i} field {fa[0]!r}: type {va[0]} became {vb[0]}"
                if va[0] in ("int", "list") and va != vb and not (va[0] == "list" and all(isinstance(x, list) and x and x[0] == "NP" for x in va[1:])):
                    return "scope", f"block {i} field {fa[0]!r}: a non-string value changed"
        elif a["cls"] == "String":
            if b["value"][0] != "str":
                return "types", f"block {i}: @string value became {b['value'][0]}"
        elif a["cls"] not in ("MiddlewareErrorBlock",):
            for k in ("value", "comment", "inner", "error"):
                if a.get(k) != b.get(k):
                    return "scope", f"block {i} ({a['cls']}): {k} changed"
    return None


def replay(rec, chk):
    bib = core.import_repo()
    i = rec["input"]
    if i["kind"] == "text":
        r = roundtrip(bib, i["text"], i["encoder_options"])
        return r, rec["expected"], r.get("field") == i["text"] and r.get("string") == i["text"]
    if i["kind"] == "probe":
        bad = check_probe(bib, {"lib": i["lib"], "fail": i["fail"], "out": rec["expected"]["out"]}, i["middleware"], i["inplace"])
        return bad, rec["expected"], bad is None
    raise core.MachineryError("re-run bin/check C18")
