"""C11 — @string references resolve exactly: bare matching identifiers only.

T1:  MC_Interp: every document of one entry (1-2 fields over the 8-value reference pool) among <= MaxStrings @string
     definitions (5 templates: first/second definition, other case, chain, concatenation), in every position:
     ResolvedExactly on Interpolate!Parsed (= Library's first-definition index + lexical enclosing test + one strip).
T2:  every document concretised (two spellings) and parsed with the default stack: field values, string values,
     recorded keys, untouched non-live blocks.
T3:  random reference-heavy derivations with colliding keys -> Oracle_Splitter (Parsed) -> same comparison.
"""
from __future__ import annotations

import random

from .. import bibtok, core, docgen, splitobs

SPELL = [
    {"s": "abbr", "S": "ABBR", "t": "tt", "u": "undef", "N": "12", "K": "key1", "F": "title", "G": "note", "X": "Ex", "Y": "Why",
     "SP": " ", "NL": "\n"},
    {"s": "j-x", "S": "J-x", "t": "s", "u": "S", "N": "007", "K": "K", "F": "Author", "G": "month", "X": "é", "Y": "a.b",
     "SP": "\t", "NL": "\n"},
]
FIX = {"LB": "{", "RB": "}", "QT": '"', "CM": ",", "EQ": "=", "H": "#", "ATE": "@article", "ATS": "@string"}
NAME_OF_W = {10: "ATE", 13: "ATS", 1: "LB", 2: "RB", 3: "QT", 4: "CM", 5: "EQ", 6: "NL", 7: "SP", 9: "H",
             41: "s", 42: "S", 43: "t", 44: "u", 45: "N", 46: "K", 47: "F", 48: "G", 49: "X", 50: "Y"}
KEY = "ResolveStringReferences"


def concretise(ws, v):
    sp = SPELL[v]
    return "".join(FIX.get(NAME_OF_W[w]) or sp[NAME_OF_W[w]] for w in ws)


def compare_parsed(bib, text, toks, out, parsed, lib):
    """First difference (clause, detail) between the default-parsed library and Interpolate!Parsed."""
    M = bib.model
    n = len(toks)

    def txt(r):
        a, b = r
        return text[toks[a - 1].s:toks[b - 2].e] if a < b else ""
    if len(lib.blocks) != len(out):
        return "blocks", f"{len(lib.blocks)} blocks for {len(out)} source blocks"
    for x, (b, o, p) in enumerate(zip(lib.blocks, out, parsed)):
        if not p["live"]:
            if o["t"] in ("entry", "string"):      # a duplicate: the wrapped block keeps what the scanner produced
                inner = getattr(b, "ignore_error_block", None)
                if not isinstance(b, M.DuplicateBlockKeyBlock) or inner is None:
                    return "blocks", f"position {x + 1}: expected a duplicate wrapper, got {type(b).__name__}"
                if o["t"] == "string" and inner.value != txt(o["val"]):
                    return "others_keep", f"wrapped duplicate string at {x + 1} changed: {inner.value!r}"
                if o["t"] == "entry" and [f.value for f in inner.fields] != [txt(f["val"]) for f in o["fields"]]:
                    return "others_keep", f"wrapped duplicate entry at {x + 1} changed: {[f.value for f in inner.fields]!r}"
            continue
        if p["t"] == "string":
            if not isinstance(b, M.String):
                return "blocks", f"position {x + 1}: expected String, got {type(b).__name__}"
            if b.value != txt(p["val"]) or b.key != txt(o["key"]):
                return "strings_unchanged", f"@string {b.key!r} holds {b.value!r}, expected {txt(p['val'])!r}"
        else:
            if not isinstance(b, M.Entry):
                return "blocks", f"position {x + 1}: expected Entry, got {type(b).__name__}"
            if len(b.fields) != len(p["fields"]):
                return "blocks", f"entry at {x + 1} has {len(b.fields)} fields, expected {len(p['fields'])}"
            want_keys = []
            for f, pf, of in zip(b.fields, p["fields"], o["fields"]):
                want = txt(pf["val"])
                if pf["resolved"]:
                    want_keys.append(txt(of["key"]))
                if f.value != want:
                    clause = "resolved_exactly" if pf["resolved"] else "others_keep"
                    return clause, (f"field {f.key!r} (source value {txt(of['val'])!r}) holds {f.value!r}, expected {want!r}"
                                    f" ({'reference resolved' if pf['resolved'] else 'own content'})")
            got_keys = b.parser_metadata.get(KEY)
            if sorted(got_keys or []) != sorted(want_keys) or (got_keys is not None and not isinstance(got_keys, list)):
                return "recorded", f"entry {b.key!r} records resolved fields {got_keys!r}, expected {want_keys!r}"
    return None


def resolution_by_key(bib, text, toks, out, parsed, lib):
    """When the block structure itself differs from the specification (a scanner matter, C01-C03) the references of
    the entries that ARE there can still be judged: entry by key, field by key - a bare reference to a defined string
    holds that string's content."""
    M = bib.model

    def txt(r):
        a, b = r
        return text[toks[a - 1].s:toks[b - 2].e] if a < b else ""
    real = {}
    for b in lib.blocks:
        if isinstance(b, M.Entry):
            real.setdefault(b.key, b)
    for o, p in zip(out, parsed):
        if not p.get("live") or p.get("t") != "entry":
            continue
        b = real.get(txt(o["key"]))
        if b is None:
            continue
        fd = {}
        for f in b.fields:
            fd.setdefault(f.key, f)
        for pf, of in zip(p["fields"], o["fields"]):
            if pf["resolved"] and txt(of["key"]) in fd and fd[txt(of["key"])].value != txt(pf["val"]):
                return "resolved_exactly", (f"entry {b.key!r} field {txt(of['key'])!r} (source value {txt(of['val'])!r}) holds "
                                            f"{fd[txt(of['key'])].value!r}, expected {txt(pf['val'])!r} (reference resolved)")
    return None


class _Tail:
    def __init__(self, blocks):
        self.blocks = blocks


_G = {}


def _chunk(lines):
    bib = _G["bib"]
    res = {"n": 0, "mism": [], "samples": [], "resolved": 0}
    for line in lines:
        e = core.parse_export(line)
        if any(f["resolved"] for p in e["parsed"] if p.get("live") and p.get("t") == "entry" for f in p["fields"]):
            res["resolved"] += 1
        for v in (0, 1):
            text = concretise(e["w"], v)
            toks = bibtok.alpha(text)
            if len(toks) != len(e["w"]):
                raise core.MachineryError("C11 concretisation does not lex back: " + repr(text))
            res["n"] += 1
            try:
                lib = bib.parse_string(text)
            except Exception as ex:  # noqa
                res["mism"].append(("raised", f"{type(ex).__name__}: {ex}", text))
                continue
            bad = compare_parsed(bib, text, toks, e["out"], e["parsed"], lib)
            if bad:
                res["mism"].append((bad[0], bad[1], text))
            elif not res["samples"] and v == 0 and len(e["out"]) >= 3:
                ent = lib.entries[0]
                res["samples"].append({"document": text, "fields_after_parse": [[f.key, f.value] for f in ent.fields],
                                       "recorded": ent.parser_metadata.get(KEY)})
    return res


def report(chk, clause, detail, text):
    chk.mismatch(clause, {"kind": "text", "text": text}, detail,
                 "Interpolate!Parsed: bare identifier equal to the key of the first @string with that key -> its content; "
                 "everything else keeps its own content; strings unchanged; resolved field keys recorded",
                 spec={"module": "Interpolate", "operator": "Parsed/ResolvedExactly"}, kind="text")


def run(chk: core.Check):
    bib = core.import_repo()
    rnd = random.Random(chk.seed + 11)
    maxs, nrand = (2, 1500) if chk.tier == "quick" else (3, 20000)
    chk.extra["rule"] = (f"T2: one entry (72 field-value combinations) among every sequence of <= {maxs} of 5 @string templates in "
                         "every position, two spellings; T3: random reference-heavy derivations; non-trivial = document in "
                         "which at least one reference resolves")
    res = core.run_tlc("MC_Interp", f"INIT Init\nNEXT Next\nCONSTANT MaxStrings = {maxs}\nINVARIANT InvResolved\nCHECK_DEADLOCK FALSE\n",
                       timeout=3000, heap="16g")
    chk.add_tlc(res, f"MC_Interp MaxStrings={maxs}: InvResolved (ResolvedExactly)")
    _G["bib"] = bib
    lines = list(res.raw_lines())
    outs = core.pmap(_chunk, core.chunks(lines, len(lines) // 64 + 1))
    n = sum(o["n"] for o in outs)
    if not lines or n == 0:
        raise core.MachineryError("MC_Interp exported nothing")
    chk.traces += n
    chk.evaluations += n
    nres = sum(o["resolved"] for o in outs)
    chk.nontrivial.update(range(nres))
    chk.extra["t2_documents"] = len(lines)
    chk.extra["t2_documents_with_a_resolved_reference"] = nres
    chk.clause("T2.document(resolved exactly, others keep, strings unchanged, recorded)", n)
    chk.exhaustive = True
    for o in outs:
        for s in o["samples"]:
            chk.sample(s)
        for clause, detail, text in o["mism"]:
            report(chk, clause, detail, text)
    # ---- T3 ----
    pool = ["a", "b", "c", "A", "ß", "ss"]
    refvals = pool + ["{a}", '"b"', "a # b", "1", "c # {x}", '"a" # b', "{ a }", "ab", '"a" # "b"', "{a} # {b}", '"Long " # "Name"', '{x} # "y"']
    docs = []
    for i in range(nrand):
        d = docgen.Doc()
        for j in range(rnd.randint(1, 7)):
            if rnd.random() < 0.45:
                docgen.gen_string(d, rnd, rnd.choice(pool), rnd.choice(refvals + ['"Long Name"', "{J. X}"]))
            else:
                docgen.gen_entry(d, rnd, rnd.choice(["k1", "k2", "k3"]),
                                 fields=[(k, rnd.choice(refvals)) for k in rnd.sample(["title", "journal", "month", "x"], rnd.randint(0, 3))])
            docgen.gen_gap(d, rnd)
        # every fourth document with CRLF line ends (the carriage return is a blank of its own for the scanner)
        text = d.text.replace("\n", "\r\n") if i % 4 == 3 else d.text
        if i % 16 == 5:
            text = "\ufeff" + text.lstrip()      # a byte-order mark (or any other character) directly in front of the first block
        docs.append(text)
    # ... and a sample of the T2 documents in CRLF spelling (their token sequence changes, so they go through the oracle)
    for line in rnd.sample(lines, min(len(lines), nrand // 5)):
        docs.append(concretise(core.parse_export(line)["w"], 0).replace("\n", "\r\n"))
    recs, tlcs = splitobs.evaluate(bib, docs, how="parse0", lib=True)
    for r in tlcs:
        chk.add_tlc(r, "Oracle_Splitter (Parsed) T3", count_states=False)
    for ri, r in enumerate(recs):
        if r["raised"]:
            continue   # scanner-level differences are the subject of C01-C03 ...
        scanner_differs = bool(r["diff"])
        toks = bibtok.alpha(r["text"], [x for s in r["spans"] for x in s])
        try:
            lib = bib.parse_string(r["text"])
        except Exception as ex:  # noqa
            report(chk, "raised", f"{type(ex).__name__}: {ex}", r["text"])
            continue
        if ri % 4 == 1 and not scanner_differs:
            # the same document parsed INTO a library that already holds an unrelated, already parsed entry: what the
            # document's own blocks become does not depend on that
            try:
                pre = bib.parse_string("@misc{zz-pre, note = {Pre Note 9}, title = \"Q\"}\n")
                lib = _Tail(bib.parse_string(r["text"], library=pre).blocks[1:])
            except Exception as ex:  # noqa
                report(chk, "raised", f"into a parsed library: {type(ex).__name__}: {ex}", r["text"])
                continue
        try:
            bad = compare_parsed(bib, r["text"], toks, r["out"], r["parsed"], lib)
        except Exception:  # noqa
            if scanner_differs:
                continue
            raise
        # ... except where the difference makes a reference go unresolved (or a non-reference resolved): that is C11's own
        if bad and scanner_differs and bad[0] == "blocks":
            bad = resolution_by_key(bib, r["text"], toks, r["out"], r["parsed"], lib)
        if bad and (not scanner_differs or bad[0] in ("resolved_exactly", "recorded")):
            report(chk, bad[0], bad[1], r["text"])
    chk.traces += len(docs)
    chk.evaluations += len(docs)
    chk.clause("T3.document", len(docs))
    chk.assumptions += ["'content' of a string = its source value with one enclosing layer removed (the default stack strips after resolving)",
                        "resolution is one level (a string whose value names another string yields that name)",
                        "what a document's own blocks become does not depend on an unrelated, already parsed entry in the library it is parsed into"]


def replay(rec, chk):
    bib = core.import_repo()
    text = rec["input"]["text"]
    recs, _ = splitobs.evaluate(bib, [text], how="parse0", lib=True)
    r = recs[0]
    toks = bibtok.alpha(text, [x for s in r["spans"] for x in s])
    bad = compare_parsed(bib, text, toks, r["out"], r["parsed"], bib.parse_string(text))
    return bad, rec["expected"], bad is None
