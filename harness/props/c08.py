"""C08 — library views stay consistent under any history of add / remove / replace.

T1: MC_Library (complete graph; InvConsistent; action property RaiseKeeps), plus a second cfg with the
    deviation actions enabled that MUST violate RaiseKeeps (non-vacuity of the property on the model).
T2: every exported edge replayed on a real Library (source state reached along the BFS tree).
T3: random histories over a larger universe validated by Trace_Library.
"""
from __future__ import annotations

import random
from collections import deque

from .. import core

OBJS_QUICK = ["E1a", "E1b", "E1c", "S1a", "P"]
OBJS_FULL = ["E1a", "E1b", "E1c", "E2", "S1a", "S1b", "P", "C", "F"]


def cfg(maxlen, objs, pool, withdev=False, prop=True):
    return f"""INIT Init
NEXT Next
CONSTANTS
 MaxLen = {maxlen}
 Objs = {core.tla_val(set(objs))}
 ListPool = {core.tla_val(set(pool))}
 WithDev = {"TRUE" if withdev else "FALSE"}
INVARIANT InvConsistent
{"PROPERTY RaiseKeeps" if prop else ""}
CHECK_DEADLOCK FALSE
"""


# ---------------------------------------------------------------------------
# real objects
# ---------------------------------------------------------------------------
def make_universe(model):
    E, F, S = model.Entry, model.Field, model.String
    return {
        "E1a": E("article", "k1", [F("t", "x")]),
        "E1b": E("article", "k1", []),             # same key, no fields (an empty entry is a block like any other)
        "E1c": E("article", "k1", [F("t", "x")]),  # == E1a, different object
        "E2": E("book", "k2", []),
        "S1a": S("k1", "v1"),
        "S1b": S("k1", ""),
        "P": model.Preamble("p"),
        "C": model.ImplicitComment("c"),
        "F": model.ParsingFailedBlock(error=Exception("x"), raw="@bad{"),
    }


def desc(b, names, model):
    if isinstance(b, model.DuplicateBlockKeyBlock):
        return "W/%s/%s/%s" % (b.key, names.get(id(b.ignore_error_block), "?"), names.get(id(b.previous_block), "?"))
    return names.get(id(b), "?" + type(b).__name__)


def views(lib, names, model):
    d = lambda b: desc(b, names, model)
    return {
        "blocks": [d(b) for b in lib.blocks],
        "entries": [d(b) for b in lib.entries],
        "entries_dict": sorted([k, d(b)] for k, b in lib.entries_dict.items()),
        "strings": sorted(d(b) for b in lib.strings),
        "strings_dict": sorted([k, d(b)] for k, b in lib.strings_dict.items()),
        "preambles": [d(b) for b in lib.preambles],
        "comments": [d(b) for b in lib.comments],
        "failed_blocks": [d(b) for b in lib.failed_blocks],
    }


def norm_expected(t):
    def pairs(x):
        return sorted([k, v] for k, v in x.items()) if isinstance(x, dict) else []
    return {
        "blocks": list(t["blocks"]), "entries": list(t["entries"]),
        "entries_dict": pairs(t["entries_dict"]), "strings": sorted(t["strings"]),
        "strings_dict": pairs(t["strings_dict"]), "preambles": list(t["preambles"]),
        "comments": list(t["comments"]), "failed_blocks": list(t["failed_blocks"]),
    }


VIEW_ORDER = ["blocks", "entries", "entries_dict", "strings_dict", "strings", "preambles", "comments", "failed_blocks"]


def arg_obj(a, lib, U):
    if "pos" in a:
        return lib.blocks[a["pos"] - 1]
    return U[a["id"]]


class _FeedStopped(Exception):
    pass


def apply(lib, op, U):
    try:
        o = op["op"]
        if o == "add":
            bs = [U[x] if isinstance(x, str) else U[x["id"]] for x in op["bs"]]
            if op.get("gen"):
                # the blocks come from an iterator that fails after the last of them: the call raises, and the library is
                # what adding those blocks (one by one) makes of it - recorded as that add, outcome "ok" iff exactly the
                # iterator's own exception came out
                def feed():
                    for b in bs:
                        yield b
                    raise _FeedStopped()
                try:
                    lib.add(feed(), fail_on_duplicate_key=False)
                except _FeedStopped:
                    return "ok"
                return "add returned although its argument raised"
            lib.add(bs[0] if op.get("single") else bs, fail_on_duplicate_key=op["fail"])
        elif o == "remove":
            xs = [arg_obj(a, lib, U) for a in op["as"]]
            if op.get("own_list"):
                # "remove everything": the argument is the very list object the library hands out as .blocks
                if [id(x) for x in xs] != [id(b) for b in lib.blocks]:
                    raise core.MachineryError("own_list removal recorded for other blocks than the held ones")
                lib.remove(lib.blocks)
            else:
                lib.remove(xs[0] if op.get("single") else xs)
        elif o == "replace":
            new = U[op["new"]] if isinstance(op["new"], str) else U[op["new"]["id"]]
            lib.replace(arg_obj(op["old"], lib, U), new, fail_on_duplicate_key=op["fail"])
        else:
            raise core.MachineryError(f"unknown op {op}")
        return "ok"
    except core.MachineryError:
        raise
    except Exception as e:
        return type(e).__name__


def first_diff(obs, exp, out_obs, out_exp):
    if out_obs != out_exp:
        return "outcome"
    for v in VIEW_ORDER:
        if obs[v] != exp[v]:
            return v
    return ""


# ---------------------------------------------------------------------------
# T2
# ---------------------------------------------------------------------------
_G = {}


def _replay_chunk(lines):
    bib = _G["bib"]
    model = bib.model
    parent = _G["parent"]
    res = {"n": 0, "mism": [], "skipped": 0, "samples": []}
    for line in lines:
        e = core.parse_export(line)
        res["n"] += 1
        U = make_universe(model)
        names = {id(v): k for k, v in U.items()}
        lib = bib.Library()
        node = tuple(e["s"])
        path = []
        while node != ():
            pn, pop = parent[node]
            path.append(pop)
            node = pn
        for pop in reversed(path):
            apply(lib, pop, U)
        if [desc(b, names, model) for b in lib.blocks] != e["s"]:
            res["skipped"] += 1          # the path itself diverged: reported on the diverging edge
            continue
        out = apply(lib, e["i"], U)
        obs = views(lib, names, model)
        exp = norm_expected(e["t"])
        clause = first_diff(obs, exp, out, e["r"])
        if len(res["samples"]) < 1 and e["s"]:
            res["samples"].append({"state": e["s"], "op": e["i"], "outcome": e["r"], "blocks_after": e["t"]["blocks"]})
        if clause:
            sig = None
            if e["dev"]:
                d = e["dev"][0]
                if first_diff(obs, norm_expected(d["t"]), out, d["r"]) == "":
                    sig = {"id": "C08-add-raise-after-insert"} if e["i"]["op"] == "add" else {"id": "C08-remove-partial"}
            res["mism"].append({"clause": clause, "state": e["s"], "op": e["i"], "path": list(reversed(path)),
                                "observed": {"out": out, "views": obs}, "expected": {"out": e["r"], "views": exp},
                                "sig": sig})
    return res


def t2(chk, bib, maxlen, objs, pool):
    res = core.run_tlc("MC_Library", cfg(maxlen, objs, pool), timeout=3000, heap="16g")
    chk.add_tlc(res, f"MC_Library complete graph MaxLen={maxlen} |Objs|={len(objs)}: InvConsistent, RaiseKeeps")
    # BFS tree over conforming, state-changing edges
    adj = {}
    lines = []
    for line in res.raw_lines():
        lines.append(line)
        # cheap pre-filter: only ok edges without deviation can be path steps
        if '\\"r\\":\\"ok\\"' in line and '\\"dev\\":[]' in line:
            e = core.parse_export(line)
            s, t = tuple(e["s"]), tuple(e["t"]["blocks"])
            if s != t:
                adj.setdefault(s, []).append((t, e["i"]))
    parent = {(): None}
    dq = deque([()])
    while dq:
        n = dq.popleft()
        for t, op in adj.get(n, ()):
            if t not in parent:
                parent[t] = (n, op)
                dq.append(t)
    _G["bib"], _G["parent"] = bib, parent
    parts = core.chunks(lines, max(1, len(lines) // 64 + 1))
    outs = core.pmap(_replay_chunk, parts)
    n = sum(o["n"] for o in outs)
    skipped = sum(o["skipped"] for o in outs)
    chk.traces += n - skipped
    chk.clause("T2.edge(outcome+8 views)", n - skipped)
    chk.extra["t2_edges"] = n
    chk.extra["t2_edges_skipped_path_diverged"] = skipped
    chk.extra["t2_states"] = len(parent)
    chk.evaluations += n
    for o in outs:
        for s in o["samples"]:
            chk.sample(s)
        for m in o["mism"]:
            chk.mismatch(m["clause"], {"kind": "edge", "path": m["path"], "op": m["op"], "state": m["state"]},
                         m["observed"], m["expected"], signature=m["sig"],
                         spec={"module": "Library", "operator": m["op"]["op"].capitalize()}, kind="library_edge")
    chk.nontrivial.update(range(n))  # every edge is a distinct (state, operation) pair by construction
    if n != res.exported or n == 0:
        raise core.MachineryError("edge export/replay count mismatch")
    return res


# ---------------------------------------------------------------------------
# T3
# ---------------------------------------------------------------------------
def big_universe(model, rnd, spell=None):
    E, F, S = model.Entry, model.Field, model.String
    U, rec = {}, {}

    def put(name, obj, kind, key, eqc):
        U[name] = obj
        rec[name] = {"id": name, "kind": kind, "key": key, "eqc": eqc}
    # the three keys are spelled differently from history to history: a key is any string (set through the API), also one
    # that looks like a format field, is empty, or differs from another only under case folding
    spell = spell or dict(zip(("k1", "k2", "k3"), rnd.sample(["k1", "k2", "k3", "doe{etal}2020", "a{0}b", "x{}", "", "%d %s", "ß", "SS", "ss", "k\n1", "{"], 3)))
    for k in ("k1", "k2", "k3"):
        for variant in ("a", "b"):
            put(f"E{k}{variant}", E("article", spell[k], [F("t", variant)] if variant == "a" else []), "entry", spell[k], f"E{k}{variant}")
        put(f"E{k}a2", E("article", spell[k], [F("t", "a")]), "entry", spell[k], f"E{k}a")   # equal copy of variant a
    for k in ("k1", "k2"):
        for variant in ("a", "b"):
            put(f"S{k}{variant}", S(spell[k], variant if variant == "a" else ""), "string", spell[k], f"S{k}{variant}")
    put("Sk1a2", S(spell["k1"], "a"), "string", spell["k1"], "Sk1a")
    put("P1", model.Preamble("p"), "preamble", "", "P1")
    put("P1x", model.Preamble("p"), "preamble", "", "P1")
    put("P2", model.Preamble("q"), "preamble", "", "P2")
    put("C1", model.ImplicitComment("c"), "icomment", "", "C1")
    put("C2", model.ExplicitComment("c"), "ecomment", "", "C2")
    put("F1", model.ParsingFailedBlock(error=Exception("x"), raw="@bad{"), "failed", "", "F1")
    ent = E("article", "k9", [F("a", "1"), F("a", "2")])
    put("DF", model.DuplicateFieldKeyBlock({"a"}, ent), "dupfield", "", "DF")
    rec["<spelling of the keys>"] = spell
    return U, rec


def history(bib, rnd, depth, cid):
    model = bib.model
    U, rec = big_universe(model, rnd)
    spell = rec.pop("<spelling of the keys>")
    names = {id(v): k for k, v in U.items()}
    lib = bib.Library()
    # a bystander: another library (holding blocks with the same keys) that nobody touches during the history
    by_blocks = [model.Entry("article", k, [model.Field("t", "by")]) for k in ("k1", "k2")] + [model.String("k1", "by"), model.ImplicitComment("by")]
    bystander = bib.Library(by_blocks)
    by_names = {id(b): "by%d" % i for i, b in enumerate(by_blocks)}
    by_views = views(bystander, by_names, model)
    ids = sorted(U)
    evs = []
    for _ in range(depth):
        kind = rnd.choices(["add", "remove", "replace"], [5, 3, 3])[0]
        held = [names[id(b)] for b in lib.blocks if id(b) in names]
        wpos = [i + 1 for i, b in enumerate(lib.blocks) if isinstance(b, model.DuplicateBlockKeyBlock)]

        def pick_arg():
            r = rnd.random()
            if wpos and r < 0.25:
                return {"pos": rnd.choice(wpos)}
            if held and r < 0.8:
                return dict(rec[rnd.choice(held)])
            return dict(rec[rnd.choice(ids)])
        if kind == "add":
            n = rnd.choice([1, 1, 1, 2, 3])
            op = {"op": "add", "bs": [dict(rec[rnd.choice(ids)]) for _ in range(n)],
                  "single": n == 1 and rnd.random() < 0.7, "fail": rnd.random() < 0.3}
            if rnd.random() < 0.15:
                op.update(single=False, fail=False, gen=True)
        elif kind == "remove" and held and not wpos and len(held) == len(lib.blocks) and rnd.random() < 0.2:
            op = {"op": "remove", "as": [dict(rec[h]) for h in held], "single": False, "own_list": True}
        elif kind == "remove":
            n = rnd.choice([1, 1, 1, 2])
            if n == 1:
                op = {"op": "remove", "as": [pick_arg()], "single": rnd.random() < 0.7}
            else:
                # list arguments name universe objects only (positions would shift while removing)
                op = {"op": "remove", "as": [dict(rec[rnd.choice(held or ids)]) for _ in range(n)], "single": False}
        else:
            op = {"op": "replace", "old": pick_arg(), "new": dict(rec[rnd.choice(ids)]), "fail": rnd.random() < 0.6}
        out = apply(lib, op, U)
        ev = dict(op)
        ev["out"] = out
        if rnd.random() < 0.3 and not (op["op"] == "add" and op.get("fail")) and not (op["op"] == "replace" and op.get("fail")):
            # nobody looks at the library after this call: the next event that is observed shows the accumulated effect
            ev["quiet"] = True
            evs.append(ev)
            continue
        ev["v"] = views(lib, names, model)
        if views(bystander, by_names, model) != by_views:
            ev["v"] = dict(ev["v"], blocks=ev["v"]["blocks"] + ["<another library changed: %s>" % views(bystander, by_names, model)["blocks"]])
        evs.append(ev)
    return {"id": cid, "ev": evs, "spell": spell}


def binding_selftest(chk, cases):
    """The trace specification must REJECT a recording with one corrupted field (otherwise it binds nothing)."""
    import copy
    src = next((c for c in cases if len(c["ev"]) >= 3 and all("v" in e for e in c["ev"][:3]) and c["ev"][2]["v"]["blocks"]), None)
    if src is None:
        return
    bad = []
    c1 = copy.deepcopy(src); c1["id"] = 0
    c1["ev"][2]["v"]["blocks"] = list(reversed(c1["ev"][2]["v"]["blocks"])) + ["bogus"]
    c2 = copy.deepcopy(src); c2["id"] = 1
    c2["ev"][1]["out"] = "ValueError" if c2["ev"][1]["out"] == "ok" else "ok"
    c3 = copy.deepcopy(src); c3["id"] = 2
    c3["ev"][2]["v"]["entries_dict"] = c3["ev"][2]["v"]["entries_dict"] + [["no-such-key", "bogus"]]
    v = core.validate_traces("Trace_Library", [c1, c2, c3], shards=1)
    rejected = {r["reject"] for r in v.rejects}
    if rejected != {0, 1, 2}:
        raise core.MachineryError(f"Trace_Library accepted a corrupted recording (rejected only {sorted(rejected)}): the binding is vacuous")
    chk.extra["binding_selftest"] = "3 corrupted recordings (blocks view, outcome, entries_dict) rejected by Trace_Library"


def t3(chk, bib, ncases, depths):
    rnd = random.Random(chk.seed + 8)
    cases = [history(bib, rnd, rnd.choice(depths), cid) for cid in range(ncases)]
    binding_selftest(chk, cases)
    verdict = core.validate_traces("Trace_Library", cases, shards=16)
    for r in verdict.results:
        chk.add_tlc(r, "Trace_Library shard", count_states=False)
    byid = {c["id"]: c for c in cases}
    chk.traces += len(cases) - len(verdict.rejects)
    chk.clause("T3.history_events", sum(len(c["ev"]) for c in cases))
    chk.evaluations += len(cases)
    for n in verdict.notes:
        if "deviation" in n:
            c = byid[n["id"]]
            sig = {"id": {"AddRaiseAfterInsert": "C08-add-raise-after-insert", "RemovePartial": "C08-remove-partial"}[n["deviation"]]}
            ev = c["ev"][n["at"] - 1]
            chk.mismatch(n["clause"], {"kind": "history", "ev": c["ev"][:n["at"]], "spell": c.get("spell")}, {"out": ev["out"], "v": ev.get("v", "<not observed>")},
                         "ideal action of Library.tla (unchanged state on ValueError)", signature=sig,
                         spec={"module": "Trace_Library", "deviation": n["deviation"]}, kind="library_history")
    for rj in verdict.rejects:
        c = byid[rj["reject"]]
        ev = c["ev"][rj["at"] - 1]
        chk.mismatch(rj["clause"], {"kind": "history", "ev": c["ev"][:rj["at"]], "spell": c.get("spell")}, {"out": ev["out"], "v": ev.get("v", "<not observed>")},
                     rj["expected"], spec={"module": "Trace_Library", "operator": "Next"}, kind="library_history")
    if cases:
        c = cases[0]
        chk.sample({"history_prefix": [{k: v for k, v in e.items() if k != "v"} for e in c["ev"][:4]],
                    "blocks_after": c["ev"][3].get("v", {}).get("blocks") if len(c["ev"]) > 3 else None})


def t3_repo_tests(chk):
    """The repository's own test-suite as a trace source: every outermost Library call it makes is recorded by a pytest
    plugin (harness/plugin_record.py, wrapping from outside) and the histories are validated by Trace_Library."""
    import json
    import os
    import subprocess
    import tempfile
    out = os.path.join(tempfile.mkdtemp(prefix="suite-", dir=core.scratch()), "library_histories.json")
    env = dict(os.environ, PYTHONPATH=core.VERIF + os.pathsep + core.REPO, VERIF_TRACE_OUT=out, PYTHONDONTWRITEBYTECODE="1")
    env.pop(core.GUARD, None)
    r = subprocess.run([os.sys.executable, "-m", "pytest", "-q", "-x", "-p", "no:cacheprovider", "-p", "harness.plugin_record", "tests"],
                       cwd=core.REPO, env=env, capture_output=True, text=True, timeout=1200)
    if not os.path.exists(out):
        raise core.MachineryError("recording the repository's test-suite produced no trace file:\n" + r.stdout[-800:] + r.stderr[-800:])
    cases = json.load(open(out))
    chk.extra["repo_suite_histories"] = len(cases)
    chk.extra["repo_suite_events"] = sum(len(c["ev"]) for c in cases)
    chk.extra["repo_suite_pytest_exit"] = r.returncode
    if not cases:
        raise core.MachineryError("the repository's test-suite made no Library call?")
    verdict = core.validate_traces("Trace_Library", cases, shards=8)
    for x in verdict.results:
        chk.add_tlc(x, "Trace_Library (repository test-suite histories)", count_states=False)
    byid = {c["id"]: c for c in cases}
    for n in verdict.notes:
        if "deviation" in n:
            c = byid[n["id"]]
            sig = {"id": {"AddRaiseAfterInsert": "C08-add-raise-after-insert", "RemovePartial": "C08-remove-partial"}[n["deviation"]]}
            ev = c["ev"][n["at"] - 1]
            chk.mismatch(n["clause"], {"kind": "suite_history", "ev": c["ev"][:n["at"]]}, {"out": ev["out"], "v": ev.get("v", "<not observed>")},
                         "ideal action of Library.tla (unchanged state on ValueError)", signature=sig, kind="library_history")
    for rj in verdict.rejects:
        c = byid[rj["reject"]]
        ev = c["ev"][rj["at"] - 1]
        chk.mismatch(rj["clause"], {"kind": "suite_history", "ev": [{k: v for k, v in e.items() if k != "v"} for e in c["ev"][:rj["at"]]]},
                     {"out": ev["out"], "v": ev.get("v", "<not observed>")}, rj["expected"], spec={"module": "Trace_Library"}, kind="library_history")
    chk.traces += len(cases) - len(verdict.rejects)
    chk.evaluations += len(cases)
    chk.clause("T3.repository_test_suite_events", sum(len(c["ev"]) for c in cases))


def run(chk: core.Check):
    bib = core.import_repo()
    chk.extra["rule"] = ("T2: every edge (state, operation) of the complete reachable graph of Library.tla within the "
                         "stated bounds, replayed on a real Library; T3: random histories validated by TLC; a case is "
                         "non-trivial when it is a distinct (state, operation) pair / distinct history")
    if chk.tier == "quick":
        t2(chk, bib, 3, OBJS_QUICK, ["E1a", "E1b", "S1a", "P"])
        t3(chk, bib, 64, [30, 60])
    else:
        t2(chk, bib, 3, OBJS_FULL, ["E1a", "E1b", "S1a", "P", "E2"])
        t3(chk, bib, 800, [30, 60, 120, 200])
    t3_repo_tests(chk)
    chk.exhaustive = True
    # non-vacuity of RaiseKeeps on the model: with the deviation actions enabled TLC must find a counterexample
    r = core.run_tlc("MC_Library", cfg(2, ["E1a", "E1b", "P"], ["E1a", "E1b"], withdev=True), expect_complete=False,
                     workers=4)
    if "is violated" not in r.log and "Action property RaiseKeeps" not in r.log:
        raise core.MachineryError("RaiseKeeps is vacuous: deviation actions did not violate it\n" + r.error_excerpt())
    chk.extra["raisekeeps_nonvacuous"] = True
    chk.assumptions += ["wrappers are named by position (they are equal only to themselves)",
                        "order of `strings` is not compared (C08 fixes only blocks and entries order)",
                        "identity of the block restored by a rolled-back replace is not demanded"]


def replay(rec, chk):
    bib = core.import_repo()
    model = bib.model
    inp = rec["input"]
    if inp["kind"] == "edge":
        U = make_universe(model)
        names = {id(v): k for k, v in U.items()}
        lib = bib.Library()
        for op in inp["path"]:
            apply(lib, op, U)
        out = apply(lib, inp["op"], U)
        obs = {"out": out, "views": views(lib, names, model)}
        return obs, rec["expected"], obs == rec["expected"]
    if inp["kind"] == "history":
        U, recs = big_universe(model, random.Random(0), inp.get("spell"))
        recs.pop("<spelling of the keys>", None)
        names = {id(v): k for k, v in U.items()}
        lib = bib.Library()
        out = None
        for ev in inp["ev"]:
            out = apply(lib, ev, U)
        obs = {"out": out, "v": views(lib, names, model)}
        exp = rec["expected"]
        ok = isinstance(exp, dict) and exp.get("out") == out and norm_expected(exp["v"]) == obs["v"]
        return obs, exp, ok
    raise core.MachineryError("unknown replay kind")
