"""C06 — written text obeys the BibtexFormat contract and carries every block's content.

T1:  MC_Writer: ColumnLaw and AutoAligned for every enumerated (library, format).
T2:  (A) every entry of 0..3 fields with key lengths {1,4,9,15} x 4 indents x value_column {0..16,40,auto} x
     trailing_comma; (B) every library of <= MaxBlocks blocks over 10 block templates x 108 formats (separators,
     custom parsing_failed_comment): the exact output string of Writer!Write is compared with writer.write and
     write_string(unparse_stack=[]); the format object must be unchanged.
T3:  libraries parsed from random documents (with failed and duplicate blocks) x random formats -> Trace_Writer.
"""
from __future__ import annotations

import random

from .. import core, docgen, splitpipe


def cfg(part, maxblocks):
    return (f"INIT Init\nNEXT Next\nCONSTANTS\n MaxBlocks = {maxblocks}\n Part = \"{part}\"\n"
            "INVARIANT InvColumn\nINVARIANT InvAuto\nCHECK_DEADLOCK FALSE\n")


def build_block(M, b):
    t = b["t"]
    if t == "entry":
        return M.Entry(b["type"], b["key"], [M.Field(f["k"], f["v"]) for f in b["fields"]])
    if t == "string":
        return M.String(b["key"], b["val"])
    if t == "preamble":
        return M.Preamble(b["val"])
    if t == "ecomment":
        return M.ExplicitComment(b["text"])
    if t == "icomment":
        return M.ImplicitComment(b["text"])
    if t == "failed":
        if len(b["raw"].splitlines()) != b["nl"]:
            raise core.MachineryError("template line count disagrees with str.splitlines()")
        return M.ParsingFailedBlock(error=Exception("e"), raw=b["raw"])
    raise core.MachineryError(t)


def build_fmt(bib, f, past=False):
    fmt = bib.BibtexFormat()
    if past:
        # the format object has been used before, with other settings, for a library sharing keys with any other
        M = bib.model
        fmt.value_column, fmt.indent, fmt.trailing_comma, fmt.block_separator = 23, " ", not f["tc"], "~"
        old = bib.Library([M.Entry("a", "k", [M.Field(k, "v") for k in ("a", "b", "title", "author", "year", "f", "g", "x.y", "note", "A", "k")])])
        bib.writer.write(old, fmt)
        fmt.value_column = "auto"
        bib.writer.write(old, fmt)
    # the attributes are independent: the order in which they are assigned does not matter (it varies with the format)
    todo = [("indent", f["indent"]), ("value_column", "auto" if f["vc"] == -1 else f["vc"]), ("block_separator", f["sep"]),
            ("trailing_comma", f["tc"]), ("parsing_failed_comment", f["pfc"]["pre"] + ("{n}" + f["pfc"]["post"] if f["pfc"]["n"] else ""))]
    k = (len(f["indent"]) + (f["vc"] if f["vc"] > 0 else 0) + len(f["sep"])) % 5
    for name, val in todo[k:] + todo[:k]:
        setattr(fmt, name, val)
    return fmt


def fmt_state(fmt):
    return (fmt.indent, fmt.value_column, fmt.block_separator, fmt.trailing_comma, fmt.parsing_failed_comment)


def first_diff(a, b):
    i = 0
    while i < min(len(a), len(b)) and a[i] == b[i]:
        i += 1
    return f"first difference at offset {i}: observed {a[i:i + 40]!r} expected {b[i:i + 40]!r}"


def relation(bib, lib_abs, f, got, fixed, col):
    """Judge an output that is not identical to Writer!Write by the clauses of the statement only (never a false alarm
    for a different but conforming layout).  Returns None (conforms) or (clause, detail).

    - separator: the text is the separate renderings of the blocks (same format, column resolved) joined by exactly the
      separator, none after the last;
    - field lines / comma rule / column: every entry's rendering contains, on lines of their own, exactly the field lines
      that Writer!FieldLines computes; its header carries type and key;
    - failed blocks: rendering starts with the configured warning (with {n}) and the raw text verbatim;
    - other blocks carry their content."""
    M = bib.model
    f1 = dict(f, vc=col)
    parts = []
    for b in lib_abs:
        try:
            parts.append(bib.writer.write(bib.Library([build_block(M, b)]), build_fmt(bib, f1)))
        except Exception as ex:  # noqa
            return "raised", f"{type(ex).__name__}: {ex}"
    if got != f["sep"].join(parts):
        return ("auto_column" if f["vc"] == -1 and got.replace(" ", "") == f["sep"].join(parts).replace(" ", "") else "separator"), "the text is not the block renderings joined by the separator: " + first_diff(got, f["sep"].join(parts))
    for b, r, fx in zip(lib_abs, parts, fixed):
        if b["t"] == "entry":
            pos = r.find(fx) if fx else 0
            if pos < 0 or (fx and pos > 0 and r[pos - 1] != "\n"):
                return "field_lines", f"entry {b['key']!r}: expected the field lines {fx!r} in {r!r}"
            head = r[:pos] if fx else r
            if b["key"] not in head or b["type"] not in head.lower():
                return "content", f"entry header {head!r} does not carry type/key"
            if any(x["k"] + " " in r[pos + len(fx):] for x in b["fields"]):
                return "field_lines", f"entry {b['key']!r} repeats a field after its field lines"
            # a comma follows every field (last one iff trailing_comma) - and nothing else but the key
            inside = sum(x["k"].count(",") + x["v"].count(",") for x in b["fields"]) + b["key"].count(",") + b["type"].count(",")
            if r.count(",") - inside > fx.count(",") - sum(x["k"].count(",") + x["v"].count(",") for x in b["fields"]) + 1:
                return "comma_rule", f"entry {b['key']!r} is written with a comma that follows no field: {r!r}"
        elif b["t"] == "failed":
            if not r.startswith(fx.rstrip("\n")):
                return "failed_block_rendering", f"expected {fx!r} at the start of {r!r}"
        else:
            for k in ("key", "val", "text"):
                if k in b and b[k] not in r:
                    return "content", f"{b['t']} block rendering {r!r} does not carry {b[k]!r}"
    return None


def classify(e, got):
    """Name the clause of the statement that the difference falls under (best effort, for the report only)."""
    want = e["out"]
    if got.replace(" ", "") == want.replace(" ", ""):
        return "padding_column"
    if got.replace(",", "") == want.replace(",", ""):
        return "comma_rule"
    if e["fmt"]["sep"] and got.replace(e["fmt"]["sep"], "") == want.replace(e["fmt"]["sep"], ""):
        return "separator"
    if any(b["t"] == "failed" for b in e["lib"]):
        return "failed_block_rendering"
    return "text"


_G = {}


def build_lib(bib, blocks, past=False):
    """Library(blocks); with past=True the same library is reached through a history: placeholders first, every view
    read, then each placeholder replaced by its block (a view must describe the library as it is now)."""
    M = bib.model
    if not past:
        return bib.Library(blocks)
    ph = [M.ImplicitComment("placeholder %d" % i) if i % 2 else M.ParsingFailedBlock(error=Exception("p"), raw="p%d" % i) for i in range(len(blocks))]
    lib = bib.Library(ph)
    for i, b in enumerate(blocks):
        _ = (lib.entries, lib.strings, lib.comments, lib.failed_blocks, lib.entries_dict, lib.strings_dict, lib.preambles)
        lib.replace(ph[i], b, fail_on_duplicate_key=False)
    # ... and a helper entry that was re-keyed to the key of a held entry and then removed: the library's key index may
    # now be missing that entry, its blocks are what they are (the statement is about the blocks)
    ents = [b for b in blocks if isinstance(b, M.Entry)]
    if ents and len(blocks) % 2:
        helper = M.Entry("misc", "helper-key-zz", [M.Field("averyveryverylonghelperfieldkey", "v")])
        lib.add(helper)
        helper.key = ents[-1].key
        lib.remove(helper)
    return lib


def _chunk(lines):
    bib = _G["bib"]
    res = {"n": 0, "mism": [], "samples": []}
    for line in lines:
        e = core.parse_export(line)
        res["n"] += 1
        M = bib.model
        past = res["n"] % 2 == 0
        lib = build_lib(bib, [build_block(M, b) for b in e["lib"]], past)
        if len(lib.failed_blocks) != sum(1 for b in e["lib"] if b["t"] == "failed"):
            raise core.MachineryError("C06 library construction produced a duplicate wrapper")
        fmt = build_fmt(bib, e["fmt"], past)
        before = fmt_state(fmt)
        try:
            got = bib.writer.write(lib, fmt)
            got2 = bib.write_string(lib, unparse_stack=[], bibtex_format=fmt)
        except Exception as ex:  # noqa
            res["mism"].append(("raised", e, f"{type(ex).__name__}: {ex}"))
            continue
        if got != e["out"]:
            bad = relation(bib, e["lib"], e["fmt"], got, e["fixed"], e["col"])
            if bad:
                res["mism"].append((bad[0], e, bad[1]))
            else:
                res["rel"] = res.get("rel", 0) + 1
        elif got2 != got:
            res["mism"].append(("write_string_differs_from_writer", e, first_diff(got2, got)))
        elif fmt_state(fmt) != before:
            res["mism"].append(("format_changed", e, f"{before} -> {fmt_state(fmt)}"))
        elif not res["samples"] and len(e["lib"]) >= 2 and e["fmt"]["vc"] == -1:
            res["samples"].append({"library": [b["t"] for b in e["lib"]], "format": e["fmt"], "text": got})
    return res


def report(chk, clause, e, detail):
    chk.mismatch(clause, {"kind": "libfmt", "lib": e["lib"], "fmt": e["fmt"]}, detail, {"text": e["out"]},
                 spec={"module": "Writer", "operator": "Write"}, kind="libfmt")


def project(lib, M):
    out = []
    for b in lib.blocks:
        if isinstance(b, M.Entry):
            out.append({"t": "entry", "type": b.entry_type, "key": b.key, "live": True,
                        "fields": [{"k": f.key, "v": f.value} for f in b.fields]})
        elif isinstance(b, M.String):
            out.append({"t": "string", "key": b.key, "val": b.value})
        elif isinstance(b, M.Preamble):
            out.append({"t": "preamble", "val": b.value})
        elif isinstance(b, M.ExplicitComment):
            out.append({"t": "ecomment", "text": b.comment})
        elif isinstance(b, M.ImplicitComment):
            out.append({"t": "icomment", "text": b.comment})
        elif isinstance(b, M.ParsingFailedBlock):
            out.append({"t": "failed", "raw": b.raw, "nl": len(b.raw.splitlines())})
        else:
            raise core.MachineryError(type(b).__name__)
    return out


def run(chk: core.Check):
    bib = core.import_repo()
    rnd = random.Random(chk.seed + 6)
    maxb, nrand = (2, 1200) if chk.tier == "quick" else (3, 20000)
    chk.extra["rule"] = ("T2: (A) 85 entry shapes x 152 formats, (B) every library of <= MaxBlocks of 10 block templates x 108 "
                         "formats; T3: parsed random documents x random formats; non-trivial = distinct (library, format)")
    _G["bib"] = bib
    total = 0
    for part in ("A", "B"):
        res = core.run_tlc("MC_Writer", cfg(part, maxb), timeout=3000, heap="16g")
        chk.add_tlc(res, f"MC_Writer part {part} MaxBlocks={maxb}: InvColumn, InvAuto")
        lines = list(res.raw_lines())
        outs = core.pmap(_chunk, core.chunks(lines, len(lines) // 64 + 1))
        n = sum(o["n"] for o in outs)
        if n != res.exported or n == 0:
            raise core.MachineryError("MC_Writer export/replay mismatch")
        total += n
        for o in outs:
            chk.extra["not_identical_but_conforming_by_relation"] = chk.extra.get("not_identical_but_conforming_by_relation", 0) + o.get("rel", 0)
            for s in o["samples"]:
                chk.sample(s)
            for clause, e, detail in o["mism"]:
                report(chk, clause, e, detail)
    chk.traces += total
    chk.evaluations += total
    chk.nontrivial.update(range(total))
    chk.clause("T2.exact_text+format_unchanged", total)
    chk.exhaustive = True
    # ---- T3 ----
    cases, inputs = [], {}
    M = bib.model
    for cid in range(nrand):
        if rnd.random() < 0.7:
            text = docgen.random_doc(rnd, rnd.randint(1, 9), keypool=["k1", "k2", "k3", "k4", "k5", "k6"], dup_ok=True,
                                     fkeys=docgen.FKEYS + ["averyveryverylongfieldkey", "booktitle", "k" * rnd.randint(1, 30)]).text
        else:
            text = rnd.choice(splitpipe.garbage(rnd, 1, 60)) + "\n@a{k, f = {x}\n@b{j, g = 1}"
        lib = bib.parse_string(text, parse_stack=[])
        f = {"indent": rnd.choice(["", " ", "\t", "  ", "    "]), "vc": -1 if rnd.random() < 0.35 else rnd.randint(0, 40),
             "sep": rnd.choice(["", "\n", "\n\n", "--\n", " \n"]), "tc": rnd.random() < 0.5,
             "pfc": rnd.choice([{"pre": "% WARNING Parsing failed for the following ", "post": " lines.", "n": True},
                                {"pre": "% bad: ", "post": "", "n": True}, {"pre": "% failed", "post": "", "n": False}])}
        fmt = build_fmt(bib, f)
        before = fmt_state(fmt)
        try:
            out, raised = bib.writer.write(lib, fmt), False
        except Exception as ex:  # noqa
            out, raised = f"{type(ex).__name__}: {ex}", True
        cases.append({"id": cid, "lib": project(lib, M), "fmt": f, "out": out, "raised": raised, "may_raise": False,
                      "fmt_unchanged": fmt_state(fmt) == before})
        inputs[cid] = text
    # hand-built entries whose values are empty or end in blanks (reachable with unparse_stack=[] or after a middleware):
    # the line is indent, key, padding, ' = ', value - the value exactly as it is
    for vc in (-1, 0, 9):
        for tc in (False, True):
            cid = len(cases)
            lib = bib.Library([M.Entry("article", "k", [M.Field("note", ""), M.Field("t", "x "), M.Field("u", "y\u00a0"), M.Field("w", " "),
                                                         M.Field("last", "")]),
                               M.Entry("misc", "nofields", []), M.Entry("book", "j", [M.Field("averyveryverylongfieldkeyindeed", "\t")])])
            f = {"indent": "  ", "vc": vc, "sep": "\n", "tc": tc, "pfc": {"pre": "% failed ", "post": "", "n": True}}
            fmt = build_fmt(bib, f)
            before = fmt_state(fmt)
            try:
                out, raised = bib.writer.write(lib, fmt), False
            except Exception as ex:  # noqa
                out, raised = f"{type(ex).__name__}: {ex}", True
            cases.append({"id": cid, "lib": project(lib, M), "fmt": f, "out": out, "raised": raised, "may_raise": False,
                          "fmt_unchanged": fmt_state(fmt) == before})
            inputs[cid] = "<hand-built entries with empty values and values ending in blanks>"
    # writes that may raise: a non-string field value (e.g. an int month) handed to the bare writer, or a warning template
    # that str.format rejects - whatever happens, the format object is left as it was
    for vc in ("auto", 0, 7):
        for kind in ("int value", "bad template"):
            cid = len(cases)
            text = "@a{k, month = 3, title = {t}}\n@b{j, f = {x\n@c{i, longfieldname = 1}"
            lib = bib.parse_string(text, parse_stack=[])
            f = {"indent": "\t", "vc": -1 if vc == "auto" else vc, "sep": "\n\n", "tc": False,
                 "pfc": {"pre": "% {oops} ", "post": "", "n": True} if kind == "bad template" else {"pre": "% failed ", "post": "", "n": True}}
            fmt = build_fmt(bib, f)
            if kind == "int value":
                lib.entries[0].set_field(M.Field("month", 3))
            before = fmt_state(fmt)
            try:
                out, raised = bib.writer.write(lib, fmt), False
            except Exception as ex:  # noqa
                out, raised = f"{type(ex).__name__}: {ex}", True
            cases.append({"id": cid, "lib": [], "fmt": f, "out": out, "raised": raised, "may_raise": True, "fmt_unchanged": fmt_state(fmt) == before})
            inputs[cid] = text + "  [" + kind + "]"
    verdict = core.validate_traces("Trace_Writer", cases, shards=8)
    for r in verdict.results:
        chk.add_tlc(r, "Trace_Writer shard", count_states=False)
    for rj in verdict.rejects:
        c = cases[rj["reject"]]
        if rj["clause"] == "spec-lemma":
            raise core.MachineryError("Writer lemma fails on a recorded library (R5)")
        if rj["clause"] == "text":
            bad = relation(bib, c["lib"], c["fmt"], c["out"], rj["expected"]["fixed"], rj["expected"]["col"])
            if bad is None:
                chk.extra["not_identical_but_conforming_by_relation"] = chk.extra.get("not_identical_but_conforming_by_relation", 0) + 1
                continue
            rj = dict(rj, clause=bad[0])
        chk.mismatch(rj["clause"], {"kind": "parsed", "text": inputs[rj["reject"]], "fmt": c["fmt"]},
                     c["out"] if c["raised"] else first_diff(c["out"], rj["expected"]["out"]), rj["expected"],
                     spec={"module": "Trace_Writer"}, kind="parsed")
    chk.traces += len(cases) - len(verdict.rejects)
    chk.evaluations += len(cases)
    chk.clause("T3.parsed_library_x_format", len(cases))
    chk.assumptions += ["field values are strings and failed blocks have a raw text (libraries producible by parsing)",
                        "the writer does not align @string values (the statement speaks of entry fields)"]


def replay(rec, chk):
    bib = core.import_repo()
    i = rec["input"]
    if i["kind"] == "libfmt":
        lib = bib.Library([build_block(bib.model, b) for b in i["lib"]])
        got = bib.writer.write(lib, build_fmt(bib, i["fmt"]))
        return got, rec["expected"], got == rec["expected"]["text"]
    lib = bib.parse_string(i["text"], parse_stack=[])
    got = bib.writer.write(lib, build_fmt(bib, i["fmt"]))
    return got, rec["expected"], got == rec["expected"].get("out")
