"""C05 — parse -> write -> parse preserves content; written text is a fixpoint.

T1:  MC_RoundTrip: at token level, for every document of <= MaxBlocks blocks over 36 templates per position (value pool
     with references, nested braces, quotes, concatenations, multi-line values; strings; preamble; comments) x 32
     formats: parse -> write -> parse gives the same content, the written tokens are a fixpoint and stay in the dialect.
     Per recorded round trip of the real code TLC then re-establishes
     write conformance (s1 = Pipeline!WriteString(lib1, fmt)), content preservation and both fixpoint clauses
     (Trace_Pipeline), and parse conformance of the ORIGINAL and of the WRITTEN text (Oracle_Splitter: Parsed).
T3:  grammar-derived documents (constructive product, random derivations, reference-heavy documents) x formats
     (indent x value_column x trailing_comma x separator); only documents the grammar recogniser accepts.
"""
from __future__ import annotations

import itertools
import random
import re

from .. import bibtok, core, docgen, splitobs
from . import c06, c11

INDENTS = ["", " ", "\t", "    "]
VCS = [0, 4, 12, -1]
SEPS = ["", "\n", "\n\n", " \n"]
FORMATS = [{"indent": i, "vc": v, "tc": t, "sep": s, "pfc": {"pre": "% WARNING Parsing failed for the following ", "post": " lines.", "n": True}}
           for i, v, t, s in itertools.product(INDENTS, VCS, [False, True], SEPS)]


def refdoc(rnd):
    pool = ["a", "b", "c", "A"]
    refvals = pool + ["{a}", '"b"', "a # b", "1", "c # {x}", '"a" # b', "{ a }", "ab", "undefd"]
    d = docgen.Doc()
    used_s, used_e = set(), set()
    for j in range(rnd.randint(1, 6)):
        if rnd.random() < 0.45:
            k = rnd.choice([p for p in pool if p not in used_s] or ["z%d" % j])
            used_s.add(k)
            docgen.gen_string(d, rnd, k, rnd.choice(refvals + ['"Long Name"', "{J. X}"]))
        else:
            k = "k%d" % j
            docgen.gen_entry(d, rnd, k, fields=[(f, rnd.choice(refvals + docgen.VALUES)) for f in rnd.sample(["title", "journal", "month", "x", "Year"], rnd.randint(0, 4))])
        docgen.gen_gap(d, rnd)
    return d.text


# fixed witnesses (always part of the run): entry types whose lower-casing is not the identity on word characters
WITNESSES = ["@\u0130x{k, a = {b}}\n", "% c\n@A\u0130{k1, title = \"t\"}\n\n@book{k2, a = 1}\n"]
_DOTTED_I = re.compile(r"@\w*\u0130\w*[ \t]*\{")


def dotted_i_signature(text, case):
    """Known finding C05-entry-type-with-dotted-capital-i: matched only when (a) the document has an entry whose type
    holds U+0130 and (b) the first difference between the two parses is exactly that entry turning into comment text."""
    if not _DOTTED_I.search(text):
        return None
    l1, l2 = case["lib1"], case["lib2"]
    for i, b in enumerate(l1):
        if i >= len(l2) or l2[i] != b:
            if b.get("t") == "entry" and "\u0307" in b.get("type", ""):
                return {"id": "C05-entry-type-with-dotted-capital-i"}
            # the entry may have been swallowed by the comment that precedes it
            if b.get("t") == "icomment" and i + 1 < len(l1) and l1[i + 1].get("t") == "entry" and "\u0307" in l1[i + 1].get("type", ""):
                return {"id": "C05-entry-type-with-dotted-capital-i"}
            return None
    return None


def run(chk: core.Check):
    bib = core.import_repo()
    rnd = random.Random(chk.seed + 5)
    M = bib.model
    ndoc, nfmt, ncons = (500, 4, 300) if chk.tier == "quick" else (6000, 8, 3000)
    chk.extra["rule"] = ("documents: constructive product + random derivations + reference-heavy documents accepted by the grammar "
                         "recogniser; formats: 4 indents x value_column {0,4,12,auto} x trailing_comma x 4 separators (128), "
                         f"{nfmt} per document (all 128 for a subset); non-trivial = distinct (document, format)")
    maxb = 2 if chk.tier == "quick" else 3
    res = core.run_tlc("MC_RoundTrip", f"INIT Init\nNEXT Next\nCONSTANT MaxBlocks = {maxb}\nINVARIANT InvRoundTrip\n"
                       "INVARIANT IsWellFormed\nCHECK_DEADLOCK FALSE\n", timeout=6000, heap="24g")
    chk.add_tlc(res, f"MC_RoundTrip MaxBlocks={maxb} x 32 token-level formats: InvRoundTrip (content preserved, fixpoint, "
                     "written text in the dialect), IsWellFormed (every enumerated document is in the dialect)")
    texts = [d.text for d in docgen.constructive(ncons)]
    texts += [docgen.random_doc(rnd, rnd.randint(1, 8)).text for _ in range(ndoc)]
    texts += [refdoc(rnd) for _ in range(ndoc)]
    texts += WITNESSES
    recs, tlcs = splitobs.evaluate(bib, texts, how="parse0", lib=True, grammar=True)
    for r in tlcs:
        chk.add_tlc(r, "Oracle_Splitter (original documents: Recognise, Parsed)", count_states=False)
    cases, meta, written = [], {}, []
    skipped = unattributed = 0
    for di, r in enumerate(recs):
        if r["raised"] or not r["grammar"]["ok"]:
            skipped += 1
            continue
        scanner_differs = bool(r["diff"])     # (a difference from the scanner specification is C01-C03's to report; the
        #                                        round trip law is decided here all the same: it needs no specification)
        text = r["text"]
        toks = bibtok.alpha(text, [x for s in r["spans"] for x in s])
        try:
            lib1 = bib.parse_string(text)
        except Exception as ex:  # noqa
            chk.mismatch("raised", {"kind": "doc", "text": text}, f"parse_string: {type(ex).__name__}: {ex}", "returns", kind="doc")
            continue
        try:
            if not scanner_differs and c11.compare_parsed(bib, text, toks, r["out"], r["parsed"], lib1):
                unattributed += 1        # parsing does not conform: subject of C02/C11 - the round trip is judged anyway
        except Exception:  # noqa
            unattributed += 1
        fmts = FORMATS if di % 40 == 0 else rnd.sample(FORMATS, nfmt)
        p1 = c06.project(lib1, M)        # the content of the first parse, taken BEFORE anything is written: the same parsed
        for f in fmts:                   # library is then written under several formats
            cid = len(cases)
            try:
                fmt = c06.build_fmt(bib, f)
                s1 = bib.write_string(lib1, bibtex_format=fmt)
                lib2 = bib.parse_string(s1)
                s2 = bib.write_string(lib2, bibtex_format=fmt)
                p2 = c06.project(lib2, M)
            except Exception as ex:  # noqa
                chk.mismatch("raised", {"kind": "docfmt", "text": text, "fmt": f}, f"{type(ex).__name__}: {ex}", "round trip returns",
                             kind="docfmt")
                continue
            cases.append({"id": cid, "lib1": p1, "lib2": p2, "fmt": f, "s1": s1, "s2": s2})
            meta[cid] = (text, f)
            if di % 10 == 0 and f is fmts[0]:
                written.append((cid, s1, lib2))
    verdict = core.validate_traces("Trace_Pipeline", cases, shards=16)
    for r in verdict.results:
        chk.add_tlc(r, "Trace_Pipeline shard", count_states=False)
    notes = 0
    for rj in verdict.rejects:
        text, f = meta[rj["reject"]]
        c = cases[rj["reject"]]
        if rj["clause"].startswith("note:"):
            notes += 1
            continue
        elif rj["clause"] == "content_preserved":
            obs = {"first": [b for b in c["lib1"]][:6], "second": [b for b in c["lib2"]][:6]}
        else:
            obs = c06.first_diff(c["s2"], c["s1"])
        chk.mismatch(rj["clause"], {"kind": "docfmt", "text": text, "fmt": f}, obs,
                     "content of the second parse = content of the first; second output = first output byte for byte",
                     signature=dotted_i_signature(text, c), spec={"module": "Trace_Pipeline"}, kind="docfmt")
    chk.extra["written_text_differs_from_Writer_spec_but_C05_holds"] = notes
    chk.traces += len(cases) - len(verdict.rejects) + notes
    chk.evaluations += len(cases)
    chk.nontrivial.update(range(len(cases)))
    chk.clause("T3.round_trip(write conforms, content preserved, fixpoint)", len(cases))
    # parse conformance of WRITTEN texts: the specification parses what the code wrote
    recs2, tlcs2 = splitobs.evaluate(bib, [s for _, s, _ in written], how="parse0", lib=True, grammar=True)
    for r in tlcs2:
        chk.add_tlc(r, "Oracle_Splitter (written texts)", count_states=False)
    wnotes = 0
    for (cid, s1, lib2), r in zip(written, recs2):
        text, f = meta[cid]
        # informational only: these are conformance facts about the written text, not clauses of C05
        if r["raised"] or r["diff"] or not r["grammar"]["ok"]:
            wnotes += 1
            continue
        toks = bibtok.alpha(s1, [x for s in r["spans"] for x in s])
        if c11.compare_parsed(bib, s1, toks, r["out"], r["parsed"], lib2):
            wnotes += 1
    chk.clause("T3.written_text(in dialect, parses as specified)", len(written))
    chk.extra["written_texts_outside_dialect_or_parsed_differently_than_specified"] = wnotes
    chk.extra["documents"] = len(texts)
    chk.extra["documents_outside_dialect_or_nonconforming_skipped"] = skipped
    chk.extra["unattributed_parse_differences"] = unattributed
    if cases:
        text, f = meta[0]
        chk.sample({"document": text[:300], "format": f, "written": cases[0]["s1"][:300]})
    if not cases:
        raise core.MachineryError("C05 explored nothing")
    chk.assumptions += ["documents of the dialect with pairwise distinct keys (a duplicate is written under a warning comment that "
                        "is meant to re-parse as a comment)", "whitespace-only indent and separator"]


def replay(rec, chk):
    bib = core.import_repo()
    i = rec["input"]
    if i["kind"] != "docfmt":
        lib = bib.parse_string(i["text"])
        return "returned", rec["expected"], True
    fmt = c06.build_fmt(bib, i["fmt"])
    lib1 = bib.parse_string(i["text"])
    s1 = bib.write_string(lib1, bibtex_format=fmt)
    lib2 = bib.parse_string(s1)
    s2 = bib.write_string(lib2, bibtex_format=fmt)
    M = bib.model
    ok = s1 == s2 and [dict(b) for b in c06.project(lib1, M)] == [dict(b) for b in c06.project(lib2, M)]
    return {"s1": s1, "s2": s2}, rec["expected"], ok
