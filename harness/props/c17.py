"""C17 — field sorting and key normalisation only permute/merge fields; values intact.

T1/T2: MC_SortFields: every entry of <= MaxFields fields over keys {a,A,b,B,c} x {alphabetical, normalise,
       custom order over every sub-permutation of {a,A,b,c} x case flag}; every edge replayed.
T3:    random entries of up to 30 fields / random orders -> Trace_SortFields.
"""
from __future__ import annotations

import random

from .. import core


def cfg(n):
    return f"""INIT Init
NEXT Next
CONSTANT MaxFields = {n}
INVARIANT InvHolds
INVARIANT InvIdempotent
INVARIANT InvValuesKept
CHECK_DEADLOCK FALSE
"""


_POS = [0]


def make_mw(bib, op, inplace):
    mw = bib.middlewares
    if op["m"] == "alpha":
        return mw.SortFieldsAlphabeticallyMiddleware(allow_inplace_modification=inplace)
    if op["m"] == "normalize":
        return mw.NormalizeFieldKeys(allow_inplace_modification=inplace)
    order = tuple(o if isinstance(o, str) else o["k"] for o in op["order"])
    _POS[0] += 1
    if _POS[0] % 2:
        # the documented positional order of the constructor: order, case_sensitive, allow_inplace_modification
        return mw.SortFieldsCustomMiddleware(order, op["cs"], inplace)
    return mw.SortFieldsCustomMiddleware(order=order, case_sensitive=op["cs"], allow_inplace_modification=inplace)


def proj_others(lib):
    out = []
    for b in lib.blocks:
        d = {"cls": type(b).__name__, "raw": b.raw, "line": b.start_line}
        for a in ("key", "value", "comment", "entry_type"):
            if hasattr(b, a):
                d[a] = getattr(b, a)
        if hasattr(b, "fields"):
            d["fields"] = [(f.key, f.value) for f in b.fields]
        inner = getattr(b, "ignore_error_block", None)
        if inner is not None and hasattr(inner, "fields"):
            d["inner_fields"] = [(f.key, f.value) for f in inner.fields]      # a failed block is not an entry: nothing in it moves
        out.append(d)
    return out


def run_case(bib, kv, op, inplace, history=False):
    """kv: list of (key, value). Returns dict(ctor, raised, out, idem, others).

    history=True: the entry has already been through all three middlewares (with other fields) and has been
    edited since, so it carries their parser metadata - the result must not depend on that."""
    M = bib.model
    _define_subentry(bib)
    try:
        mw = make_mw(bib, op, inplace)
    except ValueError:
        return {"ctor": False, "raised": False, "out": [], "idem": True, "others": True}
    except Exception as e:
        return {"ctor": True, "raised": True, "out": [], "idem": True, "others": True, "exc": type(e).__name__}
    # start lines do not follow the field order (fields merged in from elsewhere have other lines or none), and every field
    # got its key by assignment after it was built: order and keys are what the entry holds NOW
    def mk(i, k, v):
        f = M.Field("Placeholder" + k.swapcase(), v, [None, 50 - i, 7, i][(i + len(kv)) % 4])
        f.key = k
        return f
    target = M.Entry("article", "Key1", [mk(i, k, v) for i, (k, v) in enumerate(kv)], start_line=3, raw="raw1")
    other = M.Entry("book", "zz", [M.Field("b", "1"), M.Field("A", "2"), M.Field("a", "3")], start_line=9, raw="raw2")
    dfk = M.DuplicateFieldKeyBlock({"b"}, M.Entry("misc", "dfk", [M.Field("b", "1"), M.Field("A", "2"), M.Field("b", "3"), M.Field("a", "4")], start_line=7, raw="raw3"))
    sub = _SubEntry("article", "sub", [M.Field(k, v, i) for i, (k, v) in enumerate(kv)], start_line=11, raw="raw4") if _SubEntry else None
    lib = bib.Library([M.Preamble("p"), target, M.String("B", "x"), M.ImplicitComment("c b a"), dfk] + ([sub] if sub else []))
    if history:
        target.fields = [M.Field("Zz", "0"), M.Field("b", "0")]
        mws = bib.middlewares
        for pre in (mws.SortFieldsAlphabeticallyMiddleware(allow_inplace_modification=inplace),
                    mws.SortFieldsCustomMiddleware(order=("b",), allow_inplace_modification=inplace),
                    mws.NormalizeFieldKeys(allow_inplace_modification=inplace)):
            lib = pre.transform(lib)
        # ... and through THIS middleware object as well (same library object, edited afterwards): a second call
        # is a function of the library as it is then, not of what the object saw the first time
        try:
            r = mw.transform(lib)
            lib = r if inplace else lib
        except Exception:  # noqa
            pass
        target = lib.blocks[1]
        target.entry_type = "article"
        target.fields = [mk(i, k, v) for i, (k, v) in enumerate(kv)]
    if len(lib.blocks) != (6 if sub is not None else 5):
        # the middlewares of the entry's past already lost or added a block ("other blocks untouched")
        return {"ctor": True, "raised": False, "out": [], "idem": True, "others": False, "blocks": f"{len(lib.blocks)} blocks after the earlier runs"}
    if sub is not None:
        # an entry of an application-defined subclass of Entry holding the same fields: it is an entry like any other
        lib.blocks[5].fields = [M.Field(k, v, i) for i, (k, v) in enumerate(kv)]
    # a second entry that holds the very Field OBJECT the target starts with (objects may be shared between blocks): whatever
    # happens to the target, that entry keeps its one field with its value ("changes no value")
    shared = None
    if kv and op["m"] == "normalize":
        shared = lib.blocks[1].fields[0]
        lib.add(M.Entry("book", "shares-a-field", [shared], start_line=20, raw="raw5"))
    before = proj_others(lib)
    nblocks_before = len(lib.blocks)
    try:
        lib2 = mw.transform(lib)
        if len(lib2.blocks) != nblocks_before:
            # a block went missing or appeared: "other blocks untouched" is violated, whatever else holds
            return {"ctor": True, "raised": False, "out": [[f.key, f.value] for b in lib2.blocks[1:2] if hasattr(b, "fields") for f in b.fields],
                    "idem": True, "others": False, "blocks": f"{len(lib2.blocks)} blocks for {nblocks_before}"}
        if shared is not None:
            got_shared = [(f.key.lower(), f.value) for f in lib2.blocks[-1].fields]
            if got_shared != [(kv[0][0].lower(), kv[0][1])]:
                return {"ctor": True, "raised": False, "out": [[k, v] for k, v in got_shared], "idem": True, "others": False,
                        "shared_field_entry": got_shared}
        e2 = lib2.blocks[1]
        out = [[f.key, f.value] for f in e2.fields]
        if sub is not None:
            out_sub = [[f.key, f.value] for f in lib2.blocks[5].fields] if len(lib2.blocks) > 5 and hasattr(lib2.blocks[5], "fields") else None
            if out_sub != out:
                out = out_sub if out_sub is not None else []      # reported like a wrong result for the plain entry
        lib3 = mw.transform(lib2)
        idem = [[f.key, f.value] for f in lib3.blocks[1].fields] == out
    except Exception as e:
        return {"ctor": True, "raised": True, "out": [], "idem": True, "others": True, "exc": type(e).__name__}
    after = proj_others(lib2)
    others = (len(after) == len(before) and all(a == b for i, (a, b) in enumerate(zip(after, before)) if i not in (1, 5, 6))
              and after[1]["cls"] == "Entry" and after[1]["key"] == "Key1" and after[1]["entry_type"] == "article"
              and after[1]["raw"] == "raw1" and after[1]["line"] == 3)
    if not inplace:
        others = others and [(f.key, f.value) for f in target.fields] == [tuple(x) for x in kv]
    del other
    return {"ctor": True, "raised": False, "out": out, "idem": idem, "others": others}


_SubEntry = None


def _define_subentry(bib):
    global _SubEntry
    if _SubEntry is None:
        class SubEntry(bib.model.Entry):
            """an application-defined kind of entry"""
        _SubEntry = SubEntry


_G = {}


def _chunk(lines):
    bib = _G["bib"]
    res = {"n": 0, "mism": [], "samples": []}
    for line in lines:
        e = core.parse_export(line)
        kv = [(k, str(v)) for k, v in e["fs"]]
        want = [[k, str(v)] for k, v in e["out"]]
        for inplace, history in ((True, False), (False, False), (True, True), (False, True)):
            res["n"] += 1
            got = run_case(bib, kv, e["op"], inplace, history)
            clause = ""
            if got["ctor"] != e["ctor"]:
                clause = "order_validation"
            elif not e["ctor"]:
                clause = ""
            elif got["raised"]:
                clause = "raised"
            elif got["out"] != want:
                clause = "order" if sorted(map(tuple, got["out"])) == sorted(map(tuple, want)) else "fields_lost_or_duplicated"
            elif not got["idem"]:
                clause = "idempotent"
            elif not got["others"]:
                clause = "others_untouched"
            if clause:
                res["mism"].append({"clause": clause, "input": {"kind": "case", "fields": kv, "op": e["op"], "inplace": inplace, "history": history},
                                    "observed": got, "expected": {"ctor": e["ctor"], "out": want}})
        if not res["samples"] and len(kv) >= 3 and e["op"]["m"] == "custom" and e["ctor"]:
            res["samples"].append({"fields": kv, "op": e["op"], "result": want})
    return res


def run(chk: core.Check):
    bib = core.import_repo()
    n = 4 if chk.tier == "quick" else 5
    chk.extra["rule"] = (f"T2: every (entry of <= {n} fields over keys a,A,b,B,c; operation) pair of MC_SortFields x "
                         "{in place, copy}; non-trivial = distinct pair; T3: random entries <= 30 fields validated by TLC")
    res = core.run_tlc("MC_SortFields", cfg(n), timeout=1800)
    chk.add_tlc(res, f"MC_SortFields MaxFields={n}: InvHolds, InvIdempotent, InvValuesKept")
    _G["bib"] = bib
    lines = list(res.raw_lines())
    outs = core.pmap(_chunk, core.chunks(lines, len(lines) // 64 + 1))
    tot = sum(o["n"] for o in outs)
    chk.traces += tot
    chk.evaluations += tot
    chk.nontrivial.update(range(tot))
    chk.clause("T2.case(order,fields,idempotent,others)", tot)
    chk.exhaustive = True
    for o in outs:
        for s in o["samples"]:
            chk.sample(s)
        for m in o["mism"]:
            chk.mismatch(m["clause"], m["input"], m["observed"], m["expected"],
                         spec={"module": "SortFields", "operator": "Apply/Holds"}, kind="sortfields_case")
    if tot != 4 * res.exported or tot == 0:
        raise core.MachineryError("C17 export/replay count mismatch")

    # ---- T3 ----------------------------------------------------------------
    rnd = random.Random(chk.seed + 17)
    base = ["author", "title", "year", "note", "url", "doi"]
    variants = [f(b) for b in base for f in (str.lower, str.upper, str.title, lambda s: s[:-1] + s[-1].upper())]
    # keys whose lower() differs from casefold() or from upper().lower(): "lower-case" means str.lower, nothing else
    variants += ["straße", "strasse", "STRASSE", "Straße", "ſ", "s", "S", "ΛΌΓΟΣ", "λόγος", "λόγοσ", "ǅ", "ǆ", "ﬁ", "fi"] * 2
    ncases = 400 if chk.tier == "quick" else 6000
    cases, raw = [], {}
    for cid in range(ncases):
        nf = rnd.randint(0, 30 if rnd.random() < 0.5 else 8)
        keys = [rnd.choice(variants) for _ in range(nf)]
        m = rnd.choice(["alpha", "normalize", "custom", "custom"])
        if m == "custom":
            order = rnd.sample(variants, rnd.randint(0, 6))
            if rnd.random() < 0.3 and order:
                order.append(rnd.choice(order).swapcase())
            op = {"m": "custom", "order": [{"k": k, "lk": k.lower()} for k in order], "cs": rnd.random() < 0.5}
        else:
            op = {"m": m}
        allk = sorted(set(keys) | {k.lower() for k in keys})
        rank = {k: i + 1 for i, k in enumerate(allk)}
        kv = [(k, str(i + 1)) for i, k in enumerate(keys)]
        inplace = rnd.random() < 0.5
        history = rnd.random() < 0.5
        got = run_case(bib, kv, op, inplace, history)
        cases.append({"id": cid, "op": op,
                      "fs": [{"k": k, "v": i + 1, "lk": k.lower(), "r": rank[k], "lr": rank[k.lower()]} for i, k in enumerate(keys)],
                      "out": [[k, int(v)] for k, v in got["out"]], "ctor": got["ctor"], "raised": got["raised"],
                      "idem": got["idem"], "others": got["others"]})
        raw[cid] = (kv, op, inplace, got, history)
    verdict = core.validate_traces("Trace_SortFields", cases, shards=8)
    for r in verdict.results:
        chk.add_tlc(r, "Trace_SortFields shard", count_states=False)
    chk.traces += len(cases) - len(verdict.rejects)
    chk.evaluations += len(cases)
    chk.clause("T3.entries", len(cases))
    for rj in verdict.rejects:
        kv, op, inplace, got, history = raw[rj["reject"]]
        chk.mismatch(rj["clause"], {"kind": "case", "fields": kv, "op": op, "inplace": inplace, "history": history}, got, rj["expected"],
                     spec={"module": "Trace_SortFields"}, kind="sortfields_case")
    chk.assumptions += ["key order is Python's str order, passed to TLC as ranks", "values are distinct per field"]


def replay(rec, chk):
    bib = core.import_repo()
    inp = rec["input"]
    got = run_case(bib, [tuple(x) for x in inp["fields"]], inp["op"], inp["inplace"], inp.get("history", False))
    exp = rec["expected"]
    want = [[k, str(v)] for k, v in exp["out"]]
    ok = got["ctor"] == exp["ctor"] and (not exp["ctor"] or (not got["raised"] and got["out"] == want and got["idem"] and got["others"]))
    return got, exp, ok
