"""C14 — splitting names and merging them back is an inverse pair through the whole stack.

T1:  MC_NameParse with InvInverse (NameMerge!InverseOK): for every enumerated valid name with a non-empty last part,
     parse(merge_last_name_first(parse(name))) = parse(name), part by part, as word texts.
T2:  every such name concretised; persons grouped into lists of 1-3; through the function pair
     (split_multiple_persons_names, parse_single_name_into_parts, merge_last_name_first, ' and '.join) and through
     parse_string(append_middleware=[SeparateCoAuthors, SplitNameParts]) / write_string(prepend_middleware=
     [MergeNameParts, MergeCoAuthors]) on author, editor, translator.
T3:  random name lists (1-12 words per name, 1-6 persons).
"""
from __future__ import annotations

import random

from .. import core
from . import c13


def parts_of(p):
    return {"first": list(p.first), "von": list(p.von), "last": list(p.last), "jr": list(p.jr)}


def roundtrip_functions(bib, value):
    """value -> persons (parts) -> merged value -> persons again. Returns (persons1, merged, persons2) or raises."""
    nm = bib.middlewares.names
    names = nm.split_multiple_persons_names(value)
    o1 = [nm.parse_single_name_into_parts(n) for n in names]
    p1 = [parts_of(p) for p in o1]
    merged = " and ".join(p.merge_last_name_first for p in o1)
    # a person is edited after it has been merged once (a letter appended to the final word of the last name - the word
    # keeps its case class): the next merge is of the parts as they are NOW
    for p, want in zip(o1, p1):
        if p.last:
            p.last[-1] = p.last[-1] + "X"
            again = nm.parse_single_name_into_parts(p.merge_last_name_first)
            if parts_of(again) != dict(want, last=want["last"][:-1] + [want["last"][-1] + "X"]):
                return p1, p.merge_last_name_first, ["<merged after an edit>", parts_of(again)]
            p.last[-1] = p.last[-1][:-1]
    # the caller goes on working with the persons it got (here: edits them); what the merged text splits into is a
    # function of that text
    for p in o1:
        p.first = ["<edited>"] + p.first
        p.last.append("<edited>")
        p.von.clear()
    names.clear()
    names2 = nm.split_multiple_persons_names(merged)
    p2 = [nm.parse_single_name_into_parts(n) for n in names2]
    return p1, merged, [parts_of(p) for p in p2]


_LL = {}


def _lf(persons):
    if not isinstance(persons, list):
        return persons
    return [{k: [w.replace("\r\n", "\n") for w in ws] for k, ws in p.items()} for p in persons]


def roundtrip_stack(bib, value, key):
    m = bib.middlewares
    doc = "@article{k,\n  %s = {%s},\n  title = {T and t}\n}\n" % (key, value)
    if len(value) % 2:
        doc = doc.replace("\r\n", "\n").replace("\n", "\r\n")      # a CRLF document
    if "mws" not in _LL:
        _LL["mws"] = (m.SeparateCoAuthors(), m.SplitNameParts(), m.MergeNameParts(allow_inplace_modification=False), m.MergeCoAuthors(allow_inplace_modification=False))
    ll = len(value) % 3 == 0       # every third list goes through long-lived middleware objects
    sep, spl, mnp, mca = _LL["mws"] if ll else (m.SeparateCoAuthors(), m.SplitNameParts(), m.MergeNameParts(allow_inplace_modification=False),
                                                 m.MergeCoAuthors(allow_inplace_modification=False))
    lib1 = bib.parse_string(doc, append_middleware=[sep, spl])
    if not lib1.entries:
        return None, None, "first parse: " + str([type(b).__name__ for b in lib1.blocks])
    o1 = lib1.entries[0][key]
    v1 = [parts_of(p) for p in o1]
    pl = [mnp, mca]
    text = bib.write_string(lib1, prepend_middleware=pl)
    if bib.write_string(lib1, prepend_middleware=pl) != text or len(pl) != 2:
        return v1, None, "writing a second time with the same prepend_middleware list gives another text (or the list changed)"
    if ll:
        # the same entry objects merged in place and structured again (whatever the earlier runs left on them)
        relib = spl.transform(sep.transform(m.MergeCoAuthors().transform(m.MergeNameParts().transform(lib1))))
        again = relib.entries[0][key] if relib.entries else None
        if not isinstance(again, list) or [parts_of(p) if hasattr(p, "first") else p for p in again] != v1:
            return v1, None, "merge + split of the same entry objects gives %r" % (again,)
        o1 = again
    for p in o1:                      # (as above: the first library is edited after the document was written)
        p.first = ["<edited>"] + p.first
        p.last.append("<edited>")
    lib2 = bib.parse_string(text, append_middleware=[sep, spl])
    if not lib2.entries:
        return v1, None, "second parse of %r: %s" % (text, [type(b).__name__ for b in lib2.blocks])
    v2 = lib2.entries[0][key]
    return v1, [parts_of(p) for p in v2], text


_G = {}


def _chunk(lines):
    bib = _G["bib"]
    res = {"n": 0, "mism": [], "samples": [], "skipped": 0}
    rnd = random.Random(hash((_G["seed"], lines[0])) & 0xFFFFFFFF)
    pool = []
    for line in lines:
        e = core.parse_export(line)
        if not e["m"]:
            continue
        pieces = [c13.SPELL[t][0] if rnd.random() < 0.5 else rnd.choice(c13.SPELL[t]) for t in e["s"]]
        name = "".join(pieces).strip(" \t\n")
        spans, pos = [], 0
        for p in pieces:
            spans.append((pos, pos + len(p)))
            pos += len(p)
        want = c13.expected_parts("".join(pieces), spans, e["r"])
        pool.append((name, want))
    i = 0
    while i < len(pool):
        k = rnd.choice([1, 1, 2, 3])
        group = pool[i:i + k]
        i += k
        value = rnd.choice([" and ", " AND ", "\tand ", " and\n"]).join(n for n, _ in group)
        want = [w for _, w in group]
        res["n"] += 1
        try:
            p1, merged, p2 = roundtrip_functions(bib, value)
        except Exception as ex:  # noqa
            res["mism"].append(("raised", value, f"{type(ex).__name__}: {ex}", want, "functions"))
            continue
        if p1 != want:
            res["skipped"] += 1       # the split itself does not conform: C12/C13's subject
            continue
        if p2 != p1:
            res["mism"].append(("inverse", value, {"merged": merged, "persons_after": p2}, p1, "functions"))
            continue
        if res["n"] % 6 == 0:
            key = ("author", "editor", "translator")[(res["n"] // 6) % 3]
            try:
                v1, v2, text = roundtrip_stack(bib, value, key)
            except Exception as ex:  # noqa
                res["mism"].append(("raised", value, f"{type(ex).__name__}: {ex}", want, "stack:" + key))
                continue
            # (the document may have been given CRLF line ends: the first parse is compared modulo that, the law itself -
            # second parse = first parse - exactly)
            if _lf(v1) != _lf(want) or v2 != v1:
                res["mism"].append(("inverse_through_stack", value, {"written": text, "first": v1, "second": v2}, want, "stack:" + key))
        if not res["samples"] and k >= 2:
            res["samples"].append({"value": value, "merged": merged, "persons": p1})
    return res


def report(chk, clause, value, got, want, how):
    chk.mismatch(clause, {"kind": "names", "value": value, "how": how}, got, want,
                 spec={"module": "NameMerge", "operator": "InverseOK"}, kind="names")


def run(chk: core.Check):
    bib = core.import_repo()
    rnd = random.Random(chk.seed + 14)
    mc, mw, nrand = (5, 5, 3000) if chk.tier == "quick" else (6, 6, 50000)
    chk.extra["rule"] = ("T2: every valid name with a non-empty last part among the names of MC_NameParse (chars and words parts), "
                         "grouped into lists of 1-3 persons; T3: random lists of 1-6 random names; non-trivial = distinct list")
    _G.update(bib=bib, seed=chk.seed)
    for part, maxlen in (("chars", mc), ("words", mw)):
        res = core.run_tlc("MC_NameParse", f"INIT Init\nNEXT Next\nCONSTANTS\n MaxLen = {maxlen}\n Part = \"{part}\"\nINVARIANT InvInverse\n"
                                           "INVARIANT InvParts\nCHECK_DEADLOCK FALSE\n", timeout=3000, heap="16g")
        chk.add_tlc(res, f"MC_NameParse part {part} MaxLen={maxlen}: InvInverse, InvParts")
        lines = list(res.raw_lines())
        outs = core.pmap(_chunk, core.chunks(lines, len(lines) // 64 + 1))
        n = sum(o["n"] for o in outs)
        if n == 0:
            raise core.MachineryError("C14 explored nothing")
        chk.traces += n
        chk.evaluations += n
        chk.nontrivial.update(range(len(chk.nontrivial), len(chk.nontrivial) + n))
        chk.clause(f"T2.{part}(inverse law, function pair and entry-point stacks)", n)
        chk.extra["lists_whose_first_split_does_not_conform_skipped"] = chk.extra.get("lists_whose_first_split_does_not_conform_skipped", 0) + sum(o["skipped"] for o in outs)
        for o in outs:
            for s in o["samples"]:
                chk.sample(s)
            for m in o["mism"]:
                report(chk, *m)
    chk.exhaustive = True
    # ---- T3 ----
    nm = bib.middlewares.names
    t3 = 0
    for _ in range(nrand):
        names = []
        while len(names) < rnd.randint(1, 6):
            cand = c13.random_name(rnd)
            if c13.alpha_name(cand) is None:
                continue
            try:
                p = nm.parse_single_name_into_parts(cand)
            except nm.InvalidNameError:
                continue
            words = p.first + p.von + p.last + p.jr
            if not p.last or any(w.lower() == "and" for w in words):
                continue
            names.append(cand)
        value = " and ".join(names)
        t3 += 1
        try:
            p1, merged, p2 = roundtrip_functions(bib, value)
        except Exception as ex:  # noqa
            report(chk, "raised", value, f"{type(ex).__name__}: {ex}", "inverse law", "functions")
            continue
        if p2 != p1:
            report(chk, "inverse", value, {"merged": merged, "persons_after": p2}, p1, "functions")
        elif t3 % 10 == 0:
            try:
                v1, v2, text = roundtrip_stack(bib, value, "author")
            except Exception as ex:  # noqa
                report(chk, "raised", value, f"{type(ex).__name__}: {ex}", "inverse law", "stack:author")
                continue
            if _lf(v1) != _lf(p1) or v2 != v1:
                report(chk, "inverse_through_stack", value, {"written": text, "first": v1, "second": v2}, p1, "stack:author")
    chk.traces += t3
    chk.evaluations += t3
    chk.clause("T3.random_lists", t3)
    chk.assumptions += ["valid names with a non-empty last part, no word ending in an odd number of backslashes, no top-level word "
                        "equal to 'and' (case-insensitively)", "the merged text itself is not compared, only what it splits back into"]


def replay(rec, chk):
    bib = core.import_repo()
    value = rec["input"]["value"]
    p1, merged, p2 = roundtrip_functions(bib, value)
    return {"merged": merged, "persons_after": p2}, p1, p1 == p2
