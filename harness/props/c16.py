"""C16 — block sorting is a stable permutation by (type, key) keeping comments attached.

T1: MC_SortBlocks proves operational Sort => SortOK for all libraries x orders x modes in the bound.
T2: every enumerated (library, order, mode) replayed on the real sorter; equality with the exported result is
    the fast path, any difference is judged by TLC with the relation SortOK (Trace_SortBlocks).
T3: random larger libraries with arbitrary keys, judged by TLC with SortOK.
"""
from __future__ import annotations

import itertools
import random

from .. import core

KINDS5 = ["string", "preamble", "entry", "icomment", "ecomment"]
KEYS = {0: "", 1: "a", 2: "b"}


def all_orders():
    out = []
    for n in range(6):
        out += [list(p) for p in itertools.permutations(KINDS5, n)]
    return out


def cfg(maxlen):
    return f"""INIT Init
NEXT Next
CONSTANTS
 MaxLen = {maxlen}
INVARIANT InvSortOK
CHECK_DEADLOCK FALSE
"""


def order_defs(orders):
    return {"UseAll": "TRUE" if orders is None else "FALSE",
            "OrderSel": "{}" if orders is None else "{" + ", ".join(core.tla_val(o) for o in orders) + "}"}


def kind_classes(M):
    return {"string": M.String, "preamble": M.Preamble, "entry": M.Entry, "icomment": M.ImplicitComment,
            "ecomment": M.ExplicitComment}


def build_block(M, b, key, line):
    k, tag = b["kind"], b["id"]
    if k == "entry":
        return M.Entry("article", key, [M.Field("t", "v " + tag)], start_line=line, raw=tag)
    if k == "string":
        return M.String(key, "v " + tag, start_line=line, raw=tag)
    if k == "preamble":
        return M.Preamble("p " + tag, start_line=line, raw=tag)
    if k == "icomment":
        return M.ImplicitComment("c " + tag, start_line=line, raw=tag)
    if k == "ecomment":
        return M.ExplicitComment("c " + tag, start_line=line, raw=tag)
    if k == "failed":
        return M.ParsingFailedBlock(error=Exception("e"), start_line=line, raw=tag)
    if k == "dup":
        return M.DuplicateBlockKeyBlock(key=key, previous_block=M.Entry("article", key, []),
                                        duplicate_block=M.Entry("book", key, [M.Field("x", "y")]), start_line=line, raw=tag)
    if k == "dupfield":
        return M.DuplicateFieldKeyBlock({"a"}, M.Entry("article", key, [M.Field("a", "1"), M.Field("a", "2")], start_line=line, raw=tag))
    if k == "mwerror":
        return M.MiddlewareErrorBlock(M.Entry("article", key, [M.Field("a", "1")], start_line=line, raw=tag), Exception("m"))
    raise core.MachineryError(k)


def proj(b):
    d = {"cls": type(b).__name__, "raw": b.raw, "line": b.start_line}
    for a in ("key", "value", "comment", "entry_type"):
        if hasattr(b, a):
            d[a] = getattr(b, a)
    if hasattr(b, "fields"):
        d["fields"] = [(f.key, f.value, f.start_line) for f in b.fields]
    if hasattr(b, "error"):
        d["error"] = (type(b.error).__name__, str(b.error))
        d["inner"] = proj(b.ignore_error_block) if b.ignore_error_block is not None else None
    return d


_LL, _CALLS = {}, [0]


def run_real(bib, lib_abs, keyof, order, keep):
    M = bib.model
    cls = kind_classes(M)
    # start lines deliberately disagree with the library order (a library filled by several parses, or by hand)
    n = len(lib_abs)
    lines = [None if (i % 4 == 3) else (n - i) * 3 for i in range(n)]
    lib = bib.Library()
    # every second library is sorted by a long-lived sorter object (one per option set for the whole run) - which has also
    # sorted THIS library object before, when it held only the first half of its blocks
    okey = (tuple(order), keep)
    _CALLS[0] += 1
    if _CALLS[0] % 2:
        mw0 = None
    else:
        if okey not in _LL:
            _LL[okey] = bib.middlewares.SortBlocksByTypeAndKeyMiddleware(block_type_order=tuple(cls[k] for k in order), preserve_comments_on_top=keep)
        mw0 = _LL[okey]
    for i, b in enumerate(lib_abs):
        if mw0 is not None and i == (n + 1) // 2 and i > 0:
            held = [x.raw for x in lib.blocks]
            try:
                mw0.transform(lib)
            except Exception:  # noqa
                pass
            if [x.raw for x in lib.blocks] != held:
                # the sorter rearranged the library it was given: reported as such (nothing else can be judged)
                return {"raised": False, "second": None, "out": [], "unaltered": True, "input_unchanged": False}
        if b["kind"] == "dup":
            # a duplicate wrapper as the LIBRARY makes it: add a block holding the key (unless one is live), add the
            # duplicate, remove the helper again - the wrapper stays at its position
            key = keyof(b)
            helper = None
            if key not in lib.entries_dict:
                helper = M.Entry("article", key, [], start_line=0, raw="helper")
                lib.add(helper)
            lib.add(M.Entry("book", key, [M.Field("x", "y " + b["id"])], start_line=lines[i], raw=b["id"]))
            if helper is not None:
                lib.remove(helper)
        else:
            lib.add(build_block(M, b, keyof(b), lines[i]))
    if [b.raw for b in lib.blocks] != [b["id"] for b in lib_abs] or \
            [type(x).__name__ == "DuplicateBlockKeyBlock" for x in lib.blocks] != [b["kind"] == "dup" for b in lib_abs]:
        raise core.MachineryError("library construction changed the blocks (duplicate keys in generator?)")
    before = [proj(b) for b in lib.blocks]
    try:
        mw = mw0 or bib.middlewares.SortBlocksByTypeAndKeyMiddleware(block_type_order=tuple(cls[k] for k in order), preserve_comments_on_top=keep)
        out = mw.transform(lib)
    except Exception as e:
        return {"raised": True, "out": [], "unaltered": True, "input_unchanged": True, "exc": type(e).__name__}
    after = [proj(b) for b in lib.blocks]
    byraw = {p["raw"]: p for p in before}
    outp = [proj(b) for b in out.blocks]
    second = None
    if mw0 is not None:
        # the result is handed to the same sorter once more after one of its blocks got another key (through the public
        # setter): a second case for the judge - input = the first result as it is now, output = the second result
        keyed = [b for b in out.blocks if isinstance(b, (M.Entry, M.String))]
        keys = sorted({keyof(b0) for b0 in lib_abs} - {""})
        if keyed and len(keys) >= 2:
            victim = keyed[len(keyed) // 2]
            newkey = next(k for k in (keys if len(lib_abs) % 2 else keys[::-1]) if k != victim.key)
            victim.key = newkey
            try:
                out2 = mw0.transform(out)
                second = {"in": [[b.raw, (newkey if b is victim else None)] for b in out.blocks], "out": [b.raw for b in out2.blocks],
                          "unaltered": all(proj(b)["raw"] in byraw for b in out2.blocks)}
            except Exception as e:  # noqa
                second = {"in": [[b.raw, (newkey if b is victim else None)] for b in out.blocks], "out": [], "raised": type(e).__name__}
    return {"raised": False, "second": second, "out": [p["raw"] for p in outp],
            "unaltered": all(p == byraw.get(p["raw"]) for p in outp),
            "input_unchanged": before == after and lib.blocks is not out.blocks}


_G = {}


def _chunk(lines):
    bib = _G["bib"]
    res = {"n": 0, "slow": [], "samples": []}
    for line in lines:
        e = core.parse_export(line)
        res["n"] += 1
        got = run_real(bib, e["lib"], lambda b: KEYS[b["kr"]], e["order"], e["keep"])
        if not (not got["raised"] and got["out"] == e["out"] and got["unaltered"] and got["input_unchanged"]):
            res["slow"].append({"lib": e["lib"], "order": e["order"], "keep": e["keep"], **got, "exported": e["out"]})
        if not res["samples"] and len(e["lib"]) >= 3 and e["keep"] and any(b["kind"] == "icomment" for b in e["lib"]):
            res["samples"].append({"library": [b["id"] for b in e["lib"]], "order": e["order"], "keep": e["keep"], "sorted": e["out"]})
    return res


def judge(chk, cases, raw_inputs, what):
    """cases judged by TLC with SortOK; raw_inputs[id] = replay input."""
    verdict = core.validate_traces("Trace_SortBlocks", cases, shards=8)
    for r in verdict.results:
        chk.add_tlc(r, "Trace_SortBlocks " + what, count_states=False)
    for rj in verdict.rejects:
        c = cases[rj["reject"]]
        chk.mismatch(rj["clause"], raw_inputs[rj["reject"]],
                     {k: c[k] for k in ("raised", "out", "unaltered", "input_unchanged")}, rj["expected"],
                     spec={"module": "SortBlocks", "operator": "SortOK"}, kind="sortblocks_case")
    return len(cases) - len(verdict.rejects)


def run(chk: core.Check):
    bib = core.import_repo()
    rnd = random.Random(chk.seed + 16)
    orders = all_orders()
    default = ["string", "preamble", "entry", "icomment", "ecomment"]
    cover = [o for o in orders if len(o) <= 1] + [default, default[::-1]]
    cover += rnd.sample([o for o in orders if len(o) >= 2], 32)
    chk.extra["rule"] = ("T2: every (library, type order, comment mode) of MC_SortBlocks within the bound; non-trivial = "
                         "distinct triple; T3: random libraries of <= 14 blocks judged by TLC with SortOK")
    runs = [(3, cover)] if chk.tier == "quick" else [(3, None), (4, cover)]
    _G["bib"] = bib
    total = 0
    for maxlen, sel in runs:
        res = core.run_tlc("MC_SortBlocks", cfg(maxlen), defs=order_defs(sel), timeout=3000, heap="16g")
        chk.add_tlc(res, f"MC_SortBlocks MaxLen={maxlen} orders={'all 326' if sel is None else len(sel)}: InvSortOK")
        lines = list(res.raw_lines())
        outs = core.pmap(_chunk, core.chunks(lines, len(lines) // 64 + 1))
        n = sum(o["n"] for o in outs)
        if n != res.exported or n == 0:
            raise core.MachineryError("C16 export/replay count mismatch")
        total += n
        slow = [s for o in outs for s in o["slow"]]
        for o in outs:
            for s in o["samples"]:
                chk.sample(s)
        cases, inputs = [], {}
        for i, s in enumerate(slow[:20000]):
            cases.append({"id": i, "lib": s["lib"], "order": s["order"], "keep": s["keep"], "raised": s["raised"],
                          "out": s["out"], "unaltered": s["unaltered"], "input_unchanged": s["input_unchanged"]})
            inputs[i] = {"kind": "abstract", "lib": s["lib"], "order": s["order"], "keep": s["keep"]}
        chk.extra.setdefault("t2_not_identical_judged_by_relation", 0)
        chk.extra["t2_not_identical_judged_by_relation"] += len(slow)
        judge(chk, cases, inputs, "T2 slow path")
    chk.traces += total
    chk.evaluations += total
    chk.nontrivial.update(range(total))
    chk.clause("T2.case(SortOK via equality or relation, unaltered, input unchanged)", total)
    chk.exhaustive = True

    # ---- T3 ----------------------------------------------------------------
    ncases = 300 if chk.tier == "quick" else 5000
    kinds = ["entry"] * 4 + ["string"] * 2 + ["preamble", "icomment", "icomment", "ecomment", "failed", "dup", "dupfield", "mwerror"]
    keypool = ["", "a", "b", "B", "A", "ab", "é", "Z", "10", "9", "a b", "ß", "ss", "ſ", "İ", "E\u0301mile", "\u00c9mile", "\u212a", "K", "\u212b", "\u00c5"]
    cases, inputs = [], {}
    extra = []
    for cid in range(ncases):
        n = rnd.randint(0, 14)
        used = {"entry": set(), "string": set()}
        lib_abs, keys = [], {}
        for i in range(n):
            k = rnd.choice(kinds)
            key = rnd.choice(keypool) if k in ("entry", "string", "dup") else ""
            if k in used:
                if key in used[k]:
                    k, key = "icomment", ""
                else:
                    used[k].add(key)
            lib_abs.append({"id": f"b{i}", "kind": k, "key": key})
        # the sorter reads `key` from entries, strings and duplicate wrappers only
        allk = sorted({b["key"] for b in lib_abs} - {""})
        rank = {k: i + 1 for i, k in enumerate(allk)}
        rank[""] = 0
        for b in lib_abs:
            b["kr"] = rank[b["key"]]
        order = rnd.choice(orders)
        keep = rnd.random() < 0.6
        kmap = {b["id"]: b["key"] for b in lib_abs}
        got = run_real(bib, lib_abs, lambda b: kmap[b["id"]], order, keep)
        cases.append({"id": cid, "lib": [{"id": b["id"], "kind": b["kind"], "kr": b["kr"]} for b in lib_abs], "order": order,
                      "keep": keep, "raised": got["raised"], "out": got["out"], "unaltered": got["unaltered"],
                      "input_unchanged": got["input_unchanged"]})
        inputs[cid] = {"kind": "keyed", "lib": lib_abs, "order": order, "keep": keep}
        sec = got.get("second")
        if sec:
            byid = {b["id"]: b for b in lib_abs}
            lib2 = []
            for raw, newkey in sec["in"]:
                b0 = byid[raw]
                lib2.append({"id": raw, "kind": b0["kind"], "kr": rank[newkey] if newkey is not None else b0["kr"]})
            extra.append(({"lib": lib2, "order": order, "keep": keep, "raised": bool(sec.get("raised")), "out": sec["out"],
                           "unaltered": sec.get("unaltered", True), "input_unchanged": True},
                          {"kind": "keyed", "lib": lib_abs, "order": order, "keep": keep,
                           "note": "second sort by the same sorter object after one key of its first result was reassigned"}))
    for c2, i2 in extra:
        c2["id"] = len(cases)
        inputs[c2["id"]] = i2
        cases.append(c2)
    ok = judge(chk, cases, inputs, "T3")
    chk.traces += ok
    chk.evaluations += len(cases)
    chk.clause("T3.libraries", len(cases))
    chk.assumptions += ["a block without a key attribute sorts with the empty key",
                        "the position of a trailing comment run is not constrained (relation SortOK)",
                        "key order is Python's str order, passed to TLC as ranks"]


def replay(rec, chk):
    bib = core.import_repo()
    inp = rec["input"]
    if inp["kind"] == "abstract":
        got = run_real(bib, inp["lib"], lambda b: KEYS[b["kr"]], inp["order"], inp["keep"])
    else:
        kmap = {b["id"]: b["key"] for b in inp["lib"]}
        got = run_real(bib, inp["lib"], lambda b: kmap[b["id"]], inp["order"], inp["keep"])
    case = {"id": 0, "lib": [{"id": b["id"], "kind": b["kind"], "kr": b["kr"]} for b in inp["lib"]], "order": inp["order"],
            "keep": inp["keep"], "raised": got["raised"], "out": got["out"], "unaltered": got["unaltered"],
            "input_unchanged": got["input_unchanged"]}
    verdict = core.validate_traces("Trace_SortBlocks", [case], shards=1)
    return got, rec["expected"], not verdict.rejects
