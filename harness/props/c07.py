"""C07 — writing and copy-mode middleware never mutate or alias their input.

T1:  MC_Middleware: heap-level model of the six ways a middleware treats its input (BlockCopy, BlockInplace, LibCopy,
     LibInplace, Sort, Write) for all stacks <= MaxStack: InvInputFrozen, InvNoAlias, StepNoAlias; a second cfg with the
     deviation ShallowBlockCopy enabled MUST violate them (non-vacuity).
T3:  every shipped middleware class x option set (copy mode) x stacks of 1..3 on libraries obtained by parsing documents
     with failed, duplicate, duplicate-field and middleware-error blocks, at four value type-states; write_string with
     and without formats.  Each application is one event validated by TLC (Trace_Middleware).
"""
from __future__ import annotations

import itertools
import json
import random

from .. import core

DOC = """% leading comment
@string{jan1 = "January"}
@string{jan1 = "dup"}
@string{jf = jfoo}
@string{jfoo = "Journal of Foo"}
@preamble{"\\\\x"}
@comment{explicit}
@article{k1,
  author = {Donald E. Knuth and Leslie Lamport and {de la Vall{\\'e}e Poussin}, Ch. L. X. J.},
  title = {The {\\TeX}book & more, 100\\% $x^2$},
  month = jan,
  journal = jf,
  year = 1984,
  url = {http://example.org/a_b}
}
@book{k2, editor = "Jean d'Alembert and others", Title = {B}, title = {b2}, month = 3}
@book{k2, author = {Second Key}, month = {March}}
@misc{k3, author = {Broken {Name and Other}, x = 1
@inproceedings{k4, translator = {von Last, Jr, First}, note = jan1 # " 1", pages = {1--2}, abstract = {é ü}}
@misc{k5, author = {Unbalanced } Brace}, title = {t}}
@article{k6, author = {One, Two, Three, Four and Good Name}, title = {too many commas}}
@article{k7, editor = {Trailing Comma,}, title = {t}}
trailing text
"""
NAME_FIELDS = ("author", "editor", "translator")


def mw_table(bib):
    m = bib.middlewares
    M = bib.model
    t = []

    def add(name, f):
        t.append((name, f))
    add("RemoveEnclosingMiddleware", lambda: m.RemoveEnclosingMiddleware(allow_inplace_modification=False))
    for reuse, ei, d in itertools.product([True, False], [True, False], ["{", '"']):
        add(f"AddEnclosingMiddleware(reuse={reuse},ints={ei},def={d})",
            lambda reuse=reuse, ei=ei, d=d: m.AddEnclosingMiddleware(reuse_previous_enclosing=reuse, enclose_integers=ei,
                                                                   default_enclosing=d, allow_inplace_modification=False))
    add("ResolveStringReferencesMiddleware", lambda: m.ResolveStringReferencesMiddleware(allow_inplace_modification=False))
    for km, eu in itertools.product([True, False], [True, False]):
        add(f"LatexEncodingMiddleware(keep_math={km},enclose_urls={eu})",
            lambda km=km, eu=eu: m.LatexEncodingMiddleware(keep_math=km, enclose_urls=eu, allow_inplace_modification=False))
    for kb, kmm in itertools.product([True, False], [True, False]):
        add(f"LatexDecodingMiddleware(keep_braced_groups={kb},keep_math_mode={kmm})",
            lambda kb=kb, kmm=kmm: m.LatexDecodingMiddleware(keep_braced_groups=kb, keep_math_mode=kmm, allow_inplace_modification=False))
    # user-supplied converters (the option resets nothing else: copy mode stays copy mode)
    def enc():
        from pylatexenc.latexencode import UnicodeToLatexEncoder
        return UnicodeToLatexEncoder()

    def dec():
        from pylatexenc.latex2text import LatexNodes2Text
        return LatexNodes2Text()
    add("LatexEncodingMiddleware(encoder=own)", lambda: m.LatexEncodingMiddleware(encoder=enc(), allow_inplace_modification=False))
    add("LatexDecodingMiddleware(decoder=own)", lambda: m.LatexDecodingMiddleware(decoder=dec(), allow_inplace_modification=False))
    for c in ("SeparateCoAuthors", "SplitNameParts", "MergeCoAuthors", "MergeNameParts"):
        add(f"{c}(name_fields=editor)", lambda c=c: getattr(m, c)(allow_inplace_modification=False, name_fields=("editor",)))
    for c in ("MonthIntMiddleware", "MonthAbbreviationMiddleware", "MonthLongStringMiddleware", "SeparateCoAuthors",
              "SplitNameParts", "MergeCoAuthors", "SortFieldsAlphabeticallyMiddleware", "NormalizeFieldKeys"):
        add(c, lambda c=c: getattr(m, c)(allow_inplace_modification=False))
    for style in ("last", "first"):
        add(f"MergeNameParts(style={style})", lambda style=style: m.MergeNameParts(style=style, allow_inplace_modification=False))
    add("SortFieldsCustomMiddleware(order=title,author)", lambda: m.SortFieldsCustomMiddleware(order=("title", "author"), allow_inplace_modification=False))
    add("SortFieldsCustomMiddleware(cs)", lambda: m.SortFieldsCustomMiddleware(order=("Title", "year"), case_sensitive=True, allow_inplace_modification=False))
    add("SortFieldsCustomMiddleware(cs, order given as a list)",
        lambda: m.SortFieldsCustomMiddleware(order=["Title", "year", "author"], case_sensitive=True, allow_inplace_modification=False))
    add("SortFieldsCustomMiddleware(order given as a list)",
        lambda: m.SortFieldsCustomMiddleware(order=["title", "year"], allow_inplace_modification=False))
    add("SortBlocksByTypeAndKeyMiddleware", lambda: m.SortBlocksByTypeAndKeyMiddleware())
    add("SortBlocksByTypeAndKeyMiddleware(order=Entry,String;no comments)",
        lambda: m.SortBlocksByTypeAndKeyMiddleware(block_type_order=(M.Entry, M.String), preserve_comments_on_top=False))
    add("SortBlocksByTypeAndKeyMiddleware(order=ExplicitComment)",
        lambda: m.SortBlocksByTypeAndKeyMiddleware(block_type_order=(M.ExplicitComment,), preserve_comments_on_top=True))
    return t


# ---------------------------------------------------------------------------
# observation through the public API
# ---------------------------------------------------------------------------
def mutable_ids(lib, bib):
    """ids of the mutable objects reachable from a library: library, block list, blocks, metadata dicts, field lists,
    fields, list/NameParts values (and their lists), nested blocks of failed blocks."""
    M = bib.model
    NP = bib.middlewares.NameParts
    seen = {}

    def value(v):
        if isinstance(v, (list, dict, set)):
            seen[id(v)] = "value"
            for x in (v.values() if isinstance(v, dict) else v):
                value(x)
        elif isinstance(v, NP):
            seen[id(v)] = "value"
            for part in (v.first, v.von, v.last, v.jr):
                seen[id(part)] = "value"

    def block(b):
        if id(b) in seen:
            return
        seen[id(b)] = "block"
        seen[id(b.parser_metadata)] = "metadata"
        for mv in b.parser_metadata.values():
            value(mv)
        if isinstance(b, M.Entry):
            seen[id(b.fields)] = "fieldlist"
            for f in b.fields:
                seen[id(f)] = "field"
                value(f.value)
        if isinstance(b, M.ParsingFailedBlock):
            if b.ignore_error_block is not None:
                block(b.ignore_error_block)
            if isinstance(b, M.DuplicateBlockKeyBlock) and b.previous_block is not None:
                block(b.previous_block)
    seen[id(lib)] = "library"
    seen[id(lib.blocks)] = "blocklist"
    for b in lib.blocks:
        block(b)
    # every other way the library hands out blocks (a view that still answers with a block of another library shares it)
    for view in (lib.entries, lib.strings, lib.preambles, lib.comments, lib.failed_blocks,
                 list(lib.entries_dict.values()), list(lib.strings_dict.values())):
        for b in view:
            block(b)
    return seen


def proj(lib, bib):
    M = bib.model
    NP = bib.middlewares.NameParts

    def val(v):
        if isinstance(v, NP):
            return ["NP", list(v.first), list(v.von), list(v.last), list(v.jr)]
        if isinstance(v, (list, tuple)):
            return [type(v).__name__] + [val(x) for x in v]
        if isinstance(v, dict):
            return {str(k): val(x) for k, x in sorted(v.items(), key=lambda kv: str(kv[0]))}
        if isinstance(v, (str, int, float, bool, type(None))):
            return [type(v).__name__, v]
        if isinstance(v, (set, frozenset)):
            return ["set"] + sorted(map(str, v))
        return ["obj", type(v).__name__]

    def blk(b, depth=0):
        d = {"cls": type(b).__name__, "raw": b.raw, "line": b.start_line, "meta": val(b.parser_metadata)}
        for a in ("key", "value", "comment", "entry_type"):
            if hasattr(b, a):
                d[a] = val(getattr(b, a))
        if isinstance(b, M.Entry):
            d["fields"] = [[f.key, val(f.value), f.start_line] for f in b.fields]
        if isinstance(b, M.ParsingFailedBlock):
            d["error"] = [type(b.error).__name__, str(b.error)]
            d["inner"] = blk(b.ignore_error_block, depth + 1) if b.ignore_error_block is not None and depth < 3 else None
            if isinstance(b, M.DuplicateBlockKeyBlock):
                d["prev"] = [type(b.previous_block).__name__, b.previous_block.raw]
            if isinstance(b, M.DuplicateFieldKeyBlock):
                d["dupkeys"] = sorted(b.duplicate_keys)
        return d
    return {"blocks": [blk(b) for b in lib.blocks], "entries_dict": sorted(lib.entries_dict), "strings_dict": sorted(lib.strings_dict)}


def tname(v, bib):
    NP = bib.middlewares.NameParts
    if isinstance(v, str):
        return "str"
    if isinstance(v, bool):
        return "bool"
    if isinstance(v, int):
        return "int"
    if isinstance(v, list):
        if all(isinstance(x, NP) for x in v) and v:
            return "listnp"
        if all(isinstance(x, str) for x in v):
            return "liststr"
        return "listmixed"
    return type(v).__name__


def types_of(lib, bib):
    M = bib.model
    name, other, sv = set(), set(), set()
    for b in lib.blocks:
        if isinstance(b, M.Entry):
            for f in b.fields:
                (name if f.key in NAME_FIELDS else other).add(tname(f.value, bib))
        elif isinstance(b, M.String):
            sv.add(tname(b.value, bib))
    return {"name": sorted(name), "other": sorted(other), "str_values": sorted(sv)}


_ABSENT = object()


def apply_event(bib, lib, name, factory, eid):
    """Apply one copy-mode middleware, return (event, output library or None)."""
    before = proj(lib, bib)
    ids_in = mutable_ids(lib, bib)
    ty = types_of(lib, bib)
    out, raised, exc = None, False, ""
    try:
        mw = factory()
        out = mw.transform(lib)
    except Exception as ex:  # noqa
        raised, exc = True, f"{type(ex).__name__}: {str(ex)[:120]}"
    after = proj(lib, bib)
    shared = {}
    if out is not None:
        ids_out = mutable_ids(out, bib)
        for i in set(ids_in) & set(ids_out):
            shared[ids_in[i]] = shared.get(ids_in[i], 0) + 1
    ev = {"id": eid, "mw": name.split("(")[0], "inplace": False, "types": ty, "raised": raised, "changed": before != after,
          "shared": sum(shared.values()), "same_text_twice": True, "fmt_unchanged": True, "bad_template": False}
    import hashlib
    ev["name"] = name
    ev["in_digest"] = hashlib.sha1(json.dumps(before, sort_keys=True, default=str).encode()).hexdigest()[:16]
    ev["out_digest"] = hashlib.sha1(json.dumps(proj(out, bib), sort_keys=True, default=str).encode()).hexdigest()[:16] if out is not None else "raised"
    if out is not None:
        # metadata protocol (informational): which keys differ between a block and its counterpart in the result
        def ident(b):
            return (type(b).__name__, b.raw, b.start_line)
        ins, outs = {}, {}
        for b in lib.blocks:
            ins.setdefault(ident(b), []).append(b)
        for b in out.blocks:
            outs.setdefault(ident(b), []).append(b)
        touched = set()
        for k, bs in ins.items():
            for a, b in zip(bs, outs.get(k, [])):
                for mk in set(a.parser_metadata) | set(b.parser_metadata):
                    try:
                        same = a.parser_metadata.get(mk, _ABSENT) == b.parser_metadata.get(mk, _ABSENT)
                    except Exception:  # noqa
                        same = False
                    if not same:
                        touched.add(mk if isinstance(mk, str) else repr(mk))
        ev["meta_touched"] = sorted(touched)
    return ev, out, {"name": name, "exc": exc, "shared": shared}


def base_libraries(bib, rnd):
    m = bib.middlewares
    libs = []
    libs.append(("raw (parse_stack=[])", lambda: bib.parse_string(DOC, parse_stack=[])))
    libs.append(("default parse", lambda: bib.parse_string(DOC)))
    libs.append(("default + SeparateCoAuthors", lambda: bib.parse_string(DOC, append_middleware=[m.SeparateCoAuthors()])))
    libs.append(("default + SeparateCoAuthors + SplitNameParts",
                 lambda: bib.parse_string(DOC, append_middleware=[m.SeparateCoAuthors(), m.SplitNameParts()])))
    libs.append(("default + MonthInt", lambda: bib.parse_string(DOC, append_middleware=[m.MonthIntMiddleware()])))
    libs.append(("empty", lambda: bib.parse_string("")))
    return libs


def run(chk: core.Check):
    bib = core.import_repo()
    rnd = random.Random(chk.seed + 7)
    maxs = 3
    res = core.run_tlc("MC_Middleware", f"INIT Init\nNEXT Next\nCONSTANTS\n MaxStack = {maxs}\n WithDev = FALSE\nINVARIANT InvInputFrozen\n"
                                        "INVARIANT InvNoAlias\nPROPERTY StepNoAlias\nCHECK_DEADLOCK FALSE\n")
    chk.add_tlc(res, f"MC_Middleware MaxStack={maxs}: InvInputFrozen, InvNoAlias, StepNoAlias")
    dev = core.run_tlc("MC_Middleware", f"INIT Init\nNEXT Next\nCONSTANTS\n MaxStack = 2\n WithDev = TRUE\nINVARIANT InvInputFrozen\n"
                                        "INVARIANT InvNoAlias\nCHECK_DEADLOCK FALSE\n", expect_complete=False, workers=4)
    if "is violated" not in dev.log:
        raise core.MachineryError("C07 invariants are vacuous: the deviation ShallowBlockCopy does not violate them")
    chk.extra["invariants_nonvacuous"] = True
    table = mw_table(bib)
    libs = base_libraries(bib, rnd)
    chk.extra["rule"] = (f"{len(table)} (middleware class, option set) in copy mode x {len(libs)} parsed libraries at different value "
                         "type-states: all stacks of length 1, all of length 2 on two libraries (sampled on the others), sampled "
                         "length 3; one event per application; non-trivial = distinct (library, stack prefix)")
    events, info = [], {}
    n2, n3 = (250, 150) if chk.tier == "quick" else (6000, 6000)

    long_lived = {}
    nstack = [0]

    def run_stack(label, mk, stack):
        # every second stack is run with long-lived middleware objects (one per table row for the whole run): together with the
        # clause `functional` of Trace_Middleware - equal middleware, equal input library => equal result - an object that
        # remembers anything about its earlier work shows up
        nstack[0] += 1
        if nstack[0] % 2 == 0:
            def ll(name, factory):
                def get():
                    if name not in long_lived:
                        long_lived[name] = factory()
                    return long_lived[name]
                return get
            stack = [(name, ll(name, factory)) for name, factory in stack]
        lib = mk()
        lib0, ids0, proj0 = lib, mutable_ids(lib, bib), (proj(lib, bib) if len(stack) > 1 else None)
        for pos, (name, factory) in enumerate(stack):
            eid = len(events)
            ev, out, extra = apply_event(bib, lib, name, factory, eid)
            events.append(ev)
            info[eid] = {"library": label, "stack": [s[0] for s in stack[:pos + 1]], **extra}
            chk.note_case((label, tuple(s[0] for s in stack[:pos + 1])))
            if out is None:
                break
            lib = out
        else:
            if len(stack) > 1:
                # the stack as a whole (Middleware!InvNoAlias / InvInputFrozen): nothing reachable from the library handed to
                # the FIRST middleware is reachable from the result of the LAST, and that library is as it was
                ids_out = mutable_ids(lib, bib)
                sh = {}
                for i in set(ids0) & set(ids_out):
                    sh[ids0[i]] = sh.get(ids0[i], 0) + 1
                eid = len(events)
                events.append({"id": eid, "mw": "stack", "inplace": False, "types": types_of(lib0, bib), "raised": False,
                               "changed": proj(lib0, bib) != proj0, "shared": sum(sh.values()), "same_text_twice": True,
                               "fmt_unchanged": True, "bad_template": False})
                info[eid] = {"library": label, "stack": [s[0] for s in stack] + ["(whole stack)"], "name": "stack", "exc": "", "shared": sh}
    for label, mk in libs:
        for t in table:
            run_stack(label, mk, [t])
    # the SAME middleware object applied twice in a row (a stack may list an object twice; a long-lived program re-uses
    # its middleware objects): the second result shares nothing with ITS input, the first result

    def once(factory):
        box = []

        def get():
            if not box:
                box.append(factory())
            return box[0]
        return get
    for label, mk in libs:
        for name, factory in table:
            same = once(factory)
            run_stack(label, mk, [(name, same), (name, same)])
    # stacks that must always run: every pair of name middlewares (inverse pairs re-create earlier spellings/objects)
    names_mw = [t for t in table if t[0].split("(")[0] in ("SeparateCoAuthors", "SplitNameParts", "MergeNameParts", "MergeCoAuthors")]
    for label, mk in libs:
        for a, b in itertools.product(names_mw, names_mw):
            run_stack(label, mk, [a, b])
    pairs = list(itertools.product(table, table))
    for li, (label, mk) in enumerate(libs):
        sel = pairs if (li in (1, 3) and chk.tier == "thorough") else rnd.sample(pairs, min(n2, len(pairs)))
        for a, b in sel:
            run_stack(label, mk, [a, b])
    for _ in range(n3):
        label, mk = rnd.choice(libs)
        run_stack(label, mk, [rnd.choice(table) for _ in range(3)])
    # write_string: the library and the format are left as they were; writing twice gives the same text
    for label, mk in libs:
        for vc, template, prepend in ((0, None, None), ("auto", None, None), (12, None, None), ("auto", "% {oops} {n}", None),
                                      (3, "% {0}", None), (0, None, "empty"), ("auto", None, "copy-mode")):
            lib = mk()
            kw = {}
            if prepend == "empty":
                kw = {"prepend_middleware": []}
            elif prepend == "copy-mode":
                kw = {"prepend_middleware": [bib.middlewares.SortFieldsAlphabeticallyMiddleware(allow_inplace_modification=False),
                                            bib.middlewares.NormalizeFieldKeys(allow_inplace_modification=False)]}
            fmt = bib.BibtexFormat()
            fmt.value_column = vc
            if template:
                fmt.parsing_failed_comment = template
            fstate = (fmt.indent, fmt.value_column, fmt.block_separator, fmt.trailing_comma, fmt.parsing_failed_comment)
            before, ids_in, ty = proj(lib, bib), mutable_ids(lib, bib), types_of(lib, bib)
            raised, exc, same = False, "", True
            try:
                t1 = bib.write_string(lib, bibtex_format=fmt, **kw)
                t2 = bib.write_string(lib, bibtex_format=fmt, **kw)
                same = t1 == t2
            except Exception as ex:  # noqa
                raised, exc = True, f"{type(ex).__name__}: {str(ex)[:120]}"
            eid = len(events)
            events.append({"id": eid, "mw": "write_string", "inplace": False, "types": ty, "raised": raised,
                           "changed": proj(lib, bib) != before or set(mutable_ids(lib, bib)) != set(ids_in), "shared": 0, "same_text_twice": same, "bad_template": template is not None,
                           "fmt_unchanged": fstate == (fmt.indent, fmt.value_column, fmt.block_separator, fmt.trailing_comma, fmt.parsing_failed_comment)})
            info[eid] = {"library": label, "stack": [f"write_string(value_column={vc}, parsing_failed_comment={template!r}, prepend_middleware={prepend})"], "name": "write_string", "exc": exc, "shared": {}}
    # (events with the same middleware row and input digest must meet in one shard for the clause `functional`: the shards
    # are contiguous slices of the list sorted by that key; write_string events have no digest and sort first)
    ordered = sorted(events, key=lambda e: (e.get("name", ""), e.get("in_digest", ""), e["id"]))
    verdict = core.validate_traces("Trace_Middleware", ordered, shards=8)
    for r in verdict.results:
        chk.add_tlc(r, "Trace_Middleware shard", count_states=False)
    # binding self-test of the whole-trace clause: two recorded events with the same key, one result digest corrupted
    twins = {}
    for e in ordered:
        if "in_digest" in e and e["out_digest"] != "raised":
            twins.setdefault((e["name"], e["in_digest"]), []).append(e)
    pair = next((v for v in twins.values() if len(v) >= 2), None)
    if pair is None:
        raise core.MachineryError("C07: no two events share middleware and input - the clause `functional` is vacuous")
    forged = [dict(pair[0], id=0), dict(pair[1], id=1, out_digest="0000000000000000")]
    if not any(r["clause"] == "functional" for r in core.validate_traces("Trace_Middleware", forged, shards=1).rejects):
        raise core.MachineryError("Trace_Middleware accepted a forged pair of events (clause `functional` does not bind)")
    chk.extra["events_sharing_middleware_and_input"] = sum(len(v) for v in twins.values() if len(v) >= 2)
    notes = [rj for rj in verdict.rejects if rj["clause"].startswith("note:")]
    chk.extra["metadata_protocol_differences(informational)"] = len(notes)
    for rj in notes[:5]:
        print("NOTE C07 metadata protocol:", info[rj["reject"]]["stack"], events[rj["reject"]].get("meta_touched"), "may touch", rj["expected"])
    for rj in verdict.rejects:
        if rj["clause"].startswith("note:"):
            continue
        i = info[rj["reject"]]
        ev = events[rj["reject"]]
        chk.mismatch(rj["clause"], {"kind": "stack", "library": i["library"], "stack": i["stack"]},
                     {"raised": i["exc"] or False, "input_changed": ev["changed"], "shared_mutable_objects": i["shared"], "types": ev["types"]},
                     rj["expected"], spec={"module": "Trace_Middleware", "operator": "Bad"}, kind="stack")
    chk.traces += len(events) - (len(verdict.rejects) - len(notes))
    chk.evaluations += len(events)
    chk.clause("T3.application(no aliasing, input frozen, no exception on applicable stacks)", len(events))
    raised = sum(1 for e in events if e["raised"])
    chk.extra["events"] = len(events)
    chk.extra["events_that_raised_on_inapplicable_type_state"] = raised - sum(1 for r in verdict.rejects if r["clause"] == "raised")
    chk.sample({"library": info[0]["library"], "stack": info[0]["stack"], "event": {k: v for k, v in events[0].items() if k != "id"}})
    chk.assumptions += ["sharing of immutable str/int values and of exception objects is not aliasing",
                        "nothing is demanded of allow_inplace_modification=True",
                        "identity is Python's id() within one process; projection through public attributes"]


def replay(rec, chk):
    bib = core.import_repo()
    table = dict(mw_table(bib))
    libs = dict(base_libraries(bib, random.Random(0)))
    i = rec["input"]
    if i["stack"][0].startswith("write_string"):
        raise core.MachineryError("re-run bin/check C07 for write_string events")
    names = [n for n in i["stack"] if n != "(whole stack)"]
    whole = len(names) != len(i["stack"])
    worst = None
    # a recorded stack may have used one object per position or one object for equal rows: both are replayed
    for same_object in (False, True):
        cache = {}

        def factory(name):
            if not same_object:
                return table[name]

            def get():
                if name not in cache:
                    cache[name] = table[name]()
                return cache[name]
            return get
        lib = libs[i["library"]]()
        lib0, ids0, proj0 = lib, mutable_ids(lib, bib), proj(lib, bib)
        ev = None
        for name in names:
            ev, out, extra = apply_event(bib, lib, name, factory(name), 0)
            if out is None:
                break
            lib = out
        res = {k: ev[k] for k in ("raised", "changed", "shared")}
        if whole and out is not None:
            res = {"raised": False, "changed": proj(lib0, bib) != proj0, "shared": len(set(ids0) & set(mutable_ids(lib, bib)))}
        ok = not res["changed"] and res["shared"] == 0 and (not res["raised"] or rec["expected"].get("raised"))
        if worst is None or not ok:
            worst = (res, ok)
        if not ok:
            break
    return worst[0], rec["expected"], worst[1]
