"""C12 — co-author splitting loses nothing and splits only at top-level ' and '.

T1:  MC_AndSplit: every sequence of <= MaxTok macro tokens {word char, and, an, d, blank, {, }, \\x, \\a, \\blank}:
     Conservation, Idempotent, and on brace-balanced input Split = RefPieces (the declarative separator rule).
T2:  every sequence concretised in 3 spellings and run through split_multiple_persons_names and through
     SeparateCoAuthors / MergeCoAuthors on author, editor, translator.
T3:  random long author lists (1-60 names) -> Trace_AndSplit.
"""
from __future__ import annotations

import random

from .. import core

SPELL = {
    "X": ["x", "K", "é", "~", ",", "1", "-", "ß", "İ", "ﬁ", "ſ", "\u00a0"], "AND": ["and", "AND", "aNd", "And"], "AN": ["an", "AN", "aN"], "D": ["d", "D"],
    "W": [" ", "\t", "\n", "\r"], "LB": ["{"], "RB": ["}"], "ESCX": ["\\'", "\\o", "\\x", "\\{", "\\}"], "ESCA": ["\\a", "\\A"],
    "ESCW": ["\\ ", "\\\n"],
}


def classes(text):
    out = []
    for c in text:
        if c in "aA":
            out.append("a")
        elif c in "nN":
            out.append("n")
        elif c in "dD":
            out.append("d")
        elif c in " \r\n\t":
            out.append("w")
        elif c in "{}":
            out.append(c)
        elif c == "\\":
            out.append("b")
        else:
            out.append("x")
    return out


def pieces_text(text, ranges):
    s = text.strip(" \r\n\t")
    return [s[a - 1:b - 1] for a, b in ranges]


def conserved(text, pieces):
    """pieces, in order, plus 'and' between them account for every non-blank character of text"""
    if not isinstance(pieces, list) or not all(isinstance(p, str) for p in pieces):
        return False
    squeeze = lambda s: "".join(s.split())          # noqa: E731
    t = squeeze(text)
    pos = 0
    for i, p in enumerate(pieces):
        q = squeeze(p)
        if i > 0:
            if t[pos:pos + 3].lower() != "and":
                return False
            pos += 3
        if t[pos:pos + len(q)] != q:
            return False
        pos += len(q)
    return pos == len(t)


def run_real(bib, text):
    """The pieces; the call is repeated after the first result has been edited in place by the caller: the function
    must not hand out shared state (the answer for a text does not depend on earlier calls)."""
    f = bib.middlewares.names.split_multiple_persons_names
    try:
        first = f(text)
        keep = list(first)
        if isinstance(first, list):
            first.append("<edited by the caller>")
            first.reverse()
        second = f(text)
        if second != keep:
            return {"first_call": keep, "same_call_after_caller_edited_the_result": second}
        return keep
    except Exception as ex:  # noqa
        return f"{type(ex).__name__}: {ex}"


_LL = {}


def via_middleware(bib, text, key):
    m = bib.middlewares
    M = bib.model
    lib = bib.Library([M.Entry("article", "k", [M.Field(key, text), M.Field("title", "a and b")])])
    # (long-lived middleware objects for every second text: the answer is a function of the text)
    if len(text) % 2 and "sep" not in _LL:
        _LL["sep"], _LL["mrg"] = m.SeparateCoAuthors(allow_inplace_modification=False), m.MergeCoAuthors(allow_inplace_modification=False)
    sep_mw = _LL["sep"] if len(text) % 2 else m.SeparateCoAuthors(allow_inplace_modification=False)
    mrg_mw = _LL["mrg"] if len(text) % 2 else m.MergeCoAuthors(allow_inplace_modification=False)
    out = sep_mw.transform(lib)
    v = out.entries[0][key]
    merged_lib = mrg_mw.transform(out)
    back = merged_lib.entries[0][key]
    # ... and the merged entry separated once more (same blocks, whatever the first two runs left on them): "merging the
    # pieces with ' and ' and splitting again gives the same pieces", through the middleware pair as well
    again = sep_mw.transform(merged_lib).entries[0][key]
    if again != v:
        return again, back, "second separation of the merged entry differs from the first: " + repr(v)
    return v, back, out.entries[0]["title"]


_G = {}


def _chunk(lines):
    bib = _G["bib"]
    res = {"n": 0, "mism": [], "samples": []}
    for line in lines:
        e = core.parse_export(line)
        rnd = random.Random(hash((_G["seed"], tuple(e["t"]))) & 0xFFFFFFFF)
        for v in range(3):
            text = "".join(SPELL[t][0] if v == 0 else rnd.choice(SPELL[t]) for t in e["t"])
            want = pieces_text(text, e["p"])
            got = run_real(bib, text)
            res["n"] += 1
            if got != want:
                lost = not conserved(text, got)
                res["mism"].append(("conservation" if lost else ("separator_rule" if e["bal"] else "pieces"), text, got, want, "function"))
                continue
            if len(e["t"]) <= 5:
                key = ("author", "editor", "translator")[len(e["t"]) % 3]
                try:
                    lst, back, title = via_middleware(bib, text, key)
                    ok = lst == want and title == "a and b" and back == " and ".join(want)
                    obs = [lst, back, title]
                except Exception as ex:  # noqa
                    ok, obs = False, f"{type(ex).__name__}: {ex}"
                if not ok:
                    res["mism"].append(("middleware", text, obs, [want, " and ".join(want), "a and b"], key))
        if not res["samples"] and len(e["p"]) >= 2 and len(e["t"]) >= 5:
            res["samples"].append({"tokens": e["t"], "text": "".join(SPELL[t][0] for t in e["t"]), "pieces": want})
    return res


def report(chk, clause, text, got, want, how):
    chk.mismatch(clause, {"kind": "names", "text": text, "how": how}, got, want,
                 spec={"module": "AndSplit", "operator": "Split/RefPieces"}, kind="names")


def random_list(rnd):
    words = ["Knuth", "Donald", "E.", "de", "la", "van", "{and}", "{Simon and Schuster}", "Andersen", "Sand", "and", "AND", "\\'Etienne",
             "{\\'E}douard", "J.~R.", "d'Alembert", "Land,", "Jr,", "andy", "Brand", "\\and", "an", "d", "{", "}", "\\", "x~and~y", "\\ ",
             "Strauß,", "İnan", "ﬁscher", "Großmann", "ａｎｄ", "ſand", "and\u00a0", "\u2003and",
             "{Ernst \\} and Young}", "{AT\\{T and Labs}", "{a \\{ and \\} b}", "and{Lamport, L.}", "{x}and", "{Simon\nand\tSchuster}", "and}", "a}nd", "an}d", "}and", "and,", "\\and"]
    names = []
    for _ in range(rnd.randint(1, 60)):
        names.append(rnd.choice([" ", "\t", "\n", "  "]).join(rnd.choice(words) for _ in range(rnd.randint(1, 4))))
    seps = [" and ", " AND ", "\nand\n", " and\t", "  and  ", " And "]
    out = names[0]
    for nm in names[1:]:
        out += rnd.choice(seps) + nm
    return rnd.choice(["", " ", "\n"]) + out + rnd.choice(["", " ", "\t"])


def run(chk: core.Check):
    bib = core.import_repo()
    rnd = random.Random(chk.seed + 12)
    maxt, nrand = (5, 1500) if chk.tier == "quick" else (6, 30000)
    chk.extra["rule"] = (f"T2: every sequence of <= {maxt} of 10 macro tokens in 3 spellings (case of 'and', blank kinds, escapes); "
                         "T3: random author lists of 1-60 names; non-trivial = distinct macro sequence / text")
    res = core.run_tlc("MC_AndSplit", f"INIT Init\nNEXT Next\nCONSTANT MaxTok = {maxt}\nINVARIANT InvConservation\nINVARIANT InvIdempotent\n"
                                      "INVARIANT InvSeparatorRule\nCHECK_DEADLOCK FALSE\n", timeout=3000, heap="16g")
    chk.add_tlc(res, f"MC_AndSplit MaxTok={maxt}: Conservation, Idempotent, SeparatorRule (= RefPieces on balanced input)")
    _G.update(bib=bib, seed=chk.seed)
    lines = list(res.raw_lines())
    outs = core.pmap(_chunk, core.chunks(lines, len(lines) // 64 + 1))
    n = sum(o["n"] for o in outs)
    if n != 3 * res.exported or n == 0:
        raise core.MachineryError("MC_AndSplit export/replay mismatch")
    chk.traces += n
    chk.evaluations += n
    chk.nontrivial.update(range(res.exported))
    chk.clause("T2.text(pieces = spec pieces; through SeparateCoAuthors/MergeCoAuthors)", n)
    chk.exhaustive = True
    for o in outs:
        for s in o["samples"]:
            chk.sample(s)
        for m in o["mism"]:
            report(chk, *m)
    # ---- T3 ----
    texts = [random_list(rnd) for _ in range(nrand)]
    cases = [{"id": i, "s": classes(t)} for i, t in enumerate(texts)]
    verdict = core.validate_traces("Trace_AndSplit", cases, shards=16)
    for r in verdict.results:
        chk.add_tlc(r, "Trace_AndSplit shard", count_states=False)
    byid = {x["id"]: x for x in verdict.notes if "id" in x}
    if len(byid) != len(texts):
        raise core.MachineryError("Trace_AndSplit answered too few cases")
    for i, t in enumerate(texts):
        r = byid[i]
        if r["spec"]:
            raise core.MachineryError(f"AndSplit specification violates its own clause {r['spec']} on {t!r} (R5)")
        want = pieces_text(t, r["p"])
        got = run_real(bib, t)
        if got != want:
            lost = not conserved(t, got)
            report(chk, "conservation" if lost else ("separator_rule" if r["bal"] else "pieces"), t, got, want, "function")
            continue
        j = " and ".join(got)
        again = run_real(bib, j)
        if again != got:
            report(chk, "idempotent", t, again, got, "merge with ' and ' and split again")
    chk.traces += len(texts)
    chk.evaluations += len(texts)
    chk.clause("T3.author_list(pieces, idempotence)", len(texts))
    chk.assumptions += ["whitespace = space, tab, CR, LF; '~' and ',' are ordinary characters",
                        "the exact separator rule is demanded on brace-balanced input only; on other input the pieces of the "
                        "operational specification (conservation and idempotence proved by TLC) are compared"]


def replay(rec, chk):
    bib = core.import_repo()
    text = rec["input"]["text"]
    got = run_real(bib, text)
    return got, rec["expected"], got == rec["expected"]
