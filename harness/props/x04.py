"""X04 (spec growth, not a listed property) - String / Preamble / ExplicitComment / ImplicitComment as records on a heap
(Blocks.tla): attribute assignment, the parser_metadata store, deep copies and equality.

T1: MC_Blocks: every history of <= MaxLen operations on <= MaxBlocks blocks: equality is an equivalence and is content
    equality of same-class blocks (line, raw, metadata included), a copy is equal and independent.
T3: random histories on real objects -> Trace_Blocks (every event: result + projected heap).
Differences are NOTE lines and evidence only; never a VIOLATION of a listed property.
"""
from __future__ import annotations

import copy
import random

from .. import core

CLASSES = ["String", "Preamble", "ExplicitComment", "ImplicitComment"]


def text_attr(cls):
    return "value" if cls in ("String", "Preamble") else "comment"


def make(M, cls, key, a, line, raw):
    if cls == "String":
        return M.String(key, a, line, raw)
    return getattr(M, cls)(a, line, raw)


def proj(b):
    cls = type(b).__name__
    return {"cls": cls, "key": b.key if cls == "String" else "", "a": getattr(b, text_attr(cls)), "line": b.start_line, "raw": b.raw,
            "meta": [[k, v] for k, v in b.parser_metadata.items()]}


def run(chk: core.Check):
    bib = core.import_repo()
    M = bib.model
    rnd = random.Random(chk.seed + 104)
    (maxlen, maxb), nrand = ((4, 3), 500) if chk.tier == "quick" else ((5, 3), 6000)
    res = core.run_tlc("MC_Blocks", f"INIT Init\nNEXT Next\nCONSTANTS\n MaxLen = {maxlen}\n MaxBlocks = {maxb}\nINVARIANT InvEquivalence\n"
                                    "INVARIANT InvClassMatters\nINVARIANT InvMetaUniqueKeys\nPROPERTY Independent\nPROPERTY CopyEqual\n"
                                    "CHECK_DEADLOCK FALSE\n", timeout=1800)
    chk.add_tlc(res, f"MC_Blocks MaxLen={maxlen} MaxBlocks={maxb}: InvEquivalence, InvClassMatters, InvMetaUniqueKeys, Independent, CopyEqual")
    texts = ["x", "y", "", "é {b}", "x"]
    cases = []
    for cid in range(nrand):
        heap, ev = [], []
        for _ in range(rnd.randint(2, 14)):
            r = rnd.random()
            if not heap or r < 0.2:
                cls = rnd.choice(CLASSES)
                e = {"op": "new", "cls": cls, "key": rnd.choice(["k", "K"]), "a": rnd.choice(texts), "line": rnd.choice([0, 3]), "raw": rnd.choice(["r", "r2"])}
                heap.append(make(M, cls, e["key"], e["a"], e["line"], e["raw"]))
                e["r"] = "ok"
            elif r < 0.4:
                i = rnd.randrange(len(heap))
                cls = type(heap[i]).__name__
                attr = "key" if (cls == "String" and rnd.random() < 0.4) else text_attr(cls)
                v = rnd.choice(texts)
                setattr(heap[i], attr, v)
                e = {"op": "set", "i": i + 1, "attr": attr, "v": v, "r": "ok"}
            elif r < 0.55:
                i = rnd.randrange(len(heap))
                k, v = rnd.choice(["m1", "m2"]), rnd.choice(texts)
                if rnd.random() < 0.5:
                    heap[i].set_parser_metadata(k, v)
                else:
                    heap[i].parser_metadata[k] = v
                e = {"op": "setmeta", "i": i + 1, "k": k, "v": v, "r": "ok"}
            elif r < 0.65:
                i = rnd.randrange(len(heap))
                k = rnd.choice(["m1", "m2", "m3"])
                got = heap[i].get_parser_metadata(k)
                e = {"op": "getmeta", "i": i + 1, "k": k, "r": "<None>" if got is None else got}
            elif r < 0.8:
                i = rnd.randrange(len(heap))
                heap.append(copy.deepcopy(heap[i]))
                e = {"op": "copy", "i": i + 1, "r": "ok"}
            else:
                i, j = rnd.randrange(len(heap)), rnd.randrange(len(heap))
                a, b = heap[i] == heap[j], heap[j] == heap[i]
                ne = heap[i] != heap[j]
                e = {"op": "eq", "i": i + 1, "j": j + 1, "r": ("true" if a else "false") if (a == b and ne != a) else "asymmetric-or-ne-disagrees"}
            e["h"] = [proj(b) for b in heap]
            ev.append(e)
        cases.append({"id": cid, "ev": ev})
    v = core.validate_traces("Trace_Blocks", cases, shards=4)
    for r in v.results:
        chk.add_tlc(r, "Trace_Blocks shard", count_states=False)
    diffs = [{"history": [{k: x for k, x in e.items() if k != "h"} for e in cases[r["reject"]]["ev"][:r["at"]]], "clause": r["clause"],
              "expected": r["expected"]} for r in v.rejects[:10]]
    # binding self-test: a corrupted recording must be rejected
    bad = [{"id": 0, "ev": [dict(cases[0]["ev"][0], h=[dict(cases[0]["ev"][0]["h"][0], a="<corrupted>")])]}]
    if not core.validate_traces("Trace_Blocks", bad, shards=1).rejects:
        raise core.MachineryError("Trace_Blocks accepted a corrupted recording")
    chk.traces += len(cases)
    chk.evaluations += sum(len(c["ev"]) for c in cases)
    chk.nontrivial.update(range(len(cases)))
    chk.clause("T3.history", len(cases))
    chk.extra["rule"] = f"every history of <= {maxlen} operations on <= {maxb} blocks (TLC); random histories of 2-14 operations on real objects"
    chk.extra["differences_from_specification"] = len(v.rejects)
    chk.extra["first_differences"] = diffs[:3]
    chk.sample(diffs[0] if diffs else {"history": [{k: x for k, x in e.items() if k != "h"} for e in cases[0]["ev"]]})
    for d in diffs[:5]:
        print("NOTE X04 differs from the specification:", str(d)[:300])
    chk.assumptions += ["spec growth: not a listed property; differences are notes, not violations",
                        "equality includes start line, raw text and parser metadata, as model.Block.__eq__ compares __dict__"]


def replay(rec, chk):
    raise core.MachineryError("X04 has no replays")
