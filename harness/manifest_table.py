"""Source of truth for MANIFEST.json (bin/mkmanifest renders and validates it)."""

TB = ("TLC 1.8 and the TLA+ modules under spec/ (the specification is the oracle); the Python projection/"
      "concretisation layer of the harness; CPython; public API of bibtexparser only")

ENGINES = [{
    "name": "tlc-conformance",
    "path": "/verif/bin/check",
    "serves_properties": [],
    "kind_free_text": "explicit TLA+ specification model-checked with TLC (T1); every explored transition/behaviour "
                      "exported and replayed into the real code (T2); executions recorded from the real code validated "
                      "against the same specification by TLC (T3)",
}]

NOTES = ("One entry point: bin/check <ID> --tier quick|thorough (VERIF_SEED honoured). Exit 2 means the machinery "
         "failed (never a verdict; also when the code under test hangs or eats memory in a check whose statement promises "
         "no result for that call). Known findings live in known_findings.json; DESIGN.md explains every check. Extras X01-X04 "
         "(spec growth, not listed here) run with the same entry point.")

CHECKS = {
    "C19": {
        "text": "TLC explores the complete Entry graph (79 field lists x 29 operations over keys {a,A,b}) and proves that the "
                "list-based operations refine an insertion-ordered dictionary and that the three views agree; every one of "
                "the 2291 edges and every equality perturbation pair is replayed on model.Entry/Field/blocks; random "
                "histories (depth 30-200) on parsed entries and perturbed parsed blocks are validated by TLC trace specs.",
        "ref": "6/C19", "technique": "TLA+ spec (Entry.tla) + TLC complete-graph replay + TLC trace validation",
        "note": TB + "; histories beyond the small key pool are sampled, not enumerated",
    },
}

CHECKS["C08"] = {
    "text": "TLC explores the complete reachable graph of Library.tla (block list + two key indexes; add/remove/replace "
            "with single, list, positional-wrapper and fail_on_duplicate_key arguments over a universe with colliding "
            "keys, structurally equal copies and cross-index keys), checks Consistent in every state and the action "
            "property RaiseKeeps; every edge (4.6e5 quick, 4.4e6 thorough) is replayed on a real Library comparing the "
            "outcome and all eight views; random histories (depth 30-200, 23-object universe) are validated by a TLC "
            "trace spec that accepts only the ideal actions plus the named deviation AddRaiseAfterInsert (known finding).",
    "ref": "6/C08", "technique": "TLA+ spec (Library.tla) + TLC complete-graph edge replay + TLC trace validation",
    "note": TB + "; exhaustive only within MaxLen=3 and the 5/9-object universe; longer histories are sampled",
}

CHECKS["C15"] = {
    "text": "TLC explores all 1890 abstract month values (ints -1..14, digit strings with leading zeros, all 2^n case "
            "patterns of every abbreviation and full name, enclosed text, other words, non-string values, absent field) "
            "under every stack of one or two month middlewares and proves Table/Compose/Identity for the operational "
            "transcription of month.py; all 24k edges are replayed on the real middlewares in place and in copy mode "
            "comparing value and type; random values of any type and arbitrary Unicode digits are validated by a TLC "
            "trace spec for totality/identity/table.",
    "ref": "6/C15", "technique": "TLA+ spec (Month.tla) + TLC complete enumeration replay + TLC trace validation",
    "note": TB + "; the English month names used to concretise abstract values are reference data of the harness",
}

CHECKS["C17"] = {
    "text": "TLC enumerates every entry of up to 4 (quick) / 5 (thorough) fields over keys {a,A,b,B,c} in every collision "
            "pattern x {alphabetical, normalise, custom order for all 65 sub-permutations of {a,A,b,c} x case flag}, proves "
            "that the operational sorts/merge satisfy the declarative clauses (stable permutation, listed-first, last value "
            "wins at first position, idempotence) and exports the unique result; every case is replayed on the three real "
            "middlewares (in place and copy) inside a library with other blocks; random entries of up to 30 fields are "
            "validated by a TLC trace spec.",
    "ref": "6/C17", "technique": "TLA+ spec (SortFields.tla) + TLC bounded-exhaustive replay + TLC trace validation",
    "note": TB + "; key order is Python's str order, handed to TLC as ranks",
}

CHECKS["C16"] = {
    "text": "TLC enumerates every library of up to 3 (quick) / 4 (thorough) blocks over an 11-block universe (equal keys "
            "across types, empty keys, both comment kinds, preamble, plain failed block, duplicate wrapper) x type orders "
            "(a covering sample of 40 in quick, all 326 sub-permutations in thorough) x both comment modes, and proves that "
            "the operational grouping+stable sort satisfies the relation SortOK (permutation, (rank,key) order, stability, "
            "comment runs attached); every case is replayed on the real sorter and any output that is not identical to the "
            "exported one is judged by TLC with SortOK; random libraries of up to 14 blocks with arbitrary keys are judged by "
            "TLC as well; blocks unaltered and input unchanged are checked on every case.",
    "ref": "6/C16", "technique": "TLA+ spec (SortBlocks.tla) + TLC bounded-exhaustive replay + TLC relation check on observed outputs",
    "note": TB + "; key order is Python's str order, handed to TLC as ranks; trailing comment runs unconstrained",
}

_SPL = ("BibSplitter.tla models the scanner as one control machine over tokens (Appendix A of DESIGN.md); MC_Splitter explores, "
        "from each of 33 prefixes (one way into every control state, also after complete blocks), all suffixes over a "
        "16-symbol alphabet (3 steps quick = 1.1e5 inputs; 4 steps + 5 steps from the empty prefix thorough) and checks "
        "NoInternalError, Tiling, Lines, FieldLines, FailedCarry, Shapes, PrefixStable, Resync on the model; ")
CHECKS["C01"] = {
    "text": _SPL + "every input is concretised in 2-4 spellings and run through Splitter.split, parse_string and "
            "write_string (any exception, or a failed block without error/raw, is a violation); size-scaled families "
            "(1e3..1e5 lines, deep nesting, unterminated blocks) and seeded garbage are run under a time budget and their "
            "block structure is checked against the specification by TLC (Oracle_Splitter).",
    "ref": "6/C01", "technique": "TLA+ spec (BibSplitter.tla) + TLC bounded-exhaustive input enumeration replayed into the code + TLC oracle on recorded runs",
    "note": TB + "; the lexer/concretiser pair alpha/gamma; termination on the code is a time budget (30 s + 0.2 ms/char, twice)",
}
CHECKS["C03"] = {
    "text": _SPL + "every input is concretised (tabs, CR, backslash-newline, several @type spellings) and the observed raw "
            "texts are located in the input in order (abstraction function: a raw that does not occur where the previous "
            "one ended, or a non-blank gap, is the tiling violation); ranges, start lines and field lines are compared with "
            "the exported ones and any difference is judged by TLC evaluating Tiling and Lines on the OBSERVED ranges, with "
            "the end of a failed block free in (start, next block start]; families, garbage and packed documents likewise.",
    "ref": "6/C03", "technique": "TLA+ spec (BibSplitter.tla) + TLC bounded-exhaustive replay + TLC evaluation of Tiling/Lines on observed ranges",
    "note": TB + "; the lexer/concretiser pair alpha/gamma and the char-level matcher locate()",
}

CHECKS["C02"] = {
    "text": "BibGrammar.tla states the supported dialect as a grammar-directed recogniser (Doc/Entry/Field/Value/Piece/"
            "Braced/Quoted) that returns ground-truth blocks; TLC checks on every explored input of MC_Splitter that "
            "Recognise(src).ok implies scanner blocks = grammar blocks with none failed (InvGrammar; 1.1e4 recognised inputs "
            "in quick), replays those inputs into Splitter.split, and validates a constructive product (templates x 25 values "
            "x 7 whitespace choices x commas x gaps) and seeded random derivations three ways: grammar = scanner spec "
            "(TLC), spec = generator ground truth, code (Splitter.split and parse_string(parse_stack=[])) = both.",
    "ref": "6/C02", "technique": "TLA+ grammar recogniser vs operational spec (TLC invariant) + bounded-exhaustive replay + TLC-validated derivations with ground truth",
    "note": TB + "; the dialect is the grammar stated in DESIGN 3.3; the derivation generator docgen.py",
}

CHECKS["C04"] = {
    "text": "MC_Neighbour proves on the specification, for 6 well-formed prefixes D1 x every middle X (13 'in the middle of "
            "something' prefixes x all suffixes of <= 3/4 steps over the 17-symbol alphabet: 5.2e4 / 8e5 sequences) x 7 "
            "well-formed suffixes D2, that blocks(D1 X NL D2) begins with blocks(D1) and ends with blocks(D2) shifted "
            "(InvPrefix, InvSuffix), together with the lemmas PrefixStable and Resync of MC_Splitter; every explored X is "
            "concretised and the same two equalities are required of the real parser for the pool pairs; random derivations "
            "with truncated/corrupted derivations in between and plain concatenations extend this to long inputs.",
    "ref": "6/C04", "technique": "TLA+ spec (BibSplitter.tla/MC_Neighbour.tla) model-checked with TLC + bounded-exhaustive replay of the same triples into the code",
    "note": TB + "; blocks are compared through the public projection, duplicate-key wrapping ignored",
}

CHECKS["C09"] = {
    "text": "BibLibrary.tla composes the scanner with Library!AddLoop; MC_Dup enumerates every document of up to 4 (quick: "
            "2.2e4) / 5 (thorough: 2.7e5) blocks over 12 templates whose entry, string and field keys collide in every "
            "pattern and interleaving, and TLC proves DupOK (count preserved, first block with a key live, every later one a "
            "wrapper at its own position pointing at the first, duplicate-field entries failed and never live, both indexes "
            "exact); every document is parsed with parse_stack=[] and with the default stack and the library is compared "
            "position by position (wrapper, key, previous block, complete inner duplicate, live sets, failed set); random "
            "derivations with keys from a pool of three go through the same comparison via the TLC oracle.",
    "ref": "6/C09", "technique": "TLA+ composition spec (BibLibrary.tla = BibSplitter + Library) model-checked with TLC + bounded-exhaustive replay + TLC oracle on random derivations",
    "note": TB + "; previous_block identified by identity or (class, raw, start_line)",
}

CHECKS["C10"] = {
    "text": "Enclosing.tla states Strip/Enclose over token-kind sequences with the laws StripOne, Restore, IntRule; MC_Enclosing "
            "composes it with BibSplitter to enumerate exactly the values of up to 4 (quick: 2.7e3) / 5 tokens that the scanner "
            "can produce as a field or @string value (plus a Python int and the empty value) and to prove the re-parse law "
            "(default-enclosed value -> one field with the same content) for brace and quote defaults; every value is replayed "
            "on RemoveEnclosingMiddleware/AddEnclosingMiddleware for 8 option sets x numeric/other key x metadata kept/absent "
            "x entry/@string x in place/copy x two spellings, the re-parse law through write_string and parse_string; values "
            "harvested from random parsed documents are checked for strip/restore.",
    "ref": "6/C10", "technique": "TLA+ spec (Enclosing.tla) composed with the scanner spec, TLC enumeration of producible values + replay into the middlewares",
    "note": TB + "; 'one outer pair' read lexically; values ending in an escaped delimiter only checked for the restore law",
}

CHECKS["C11"] = {
    "text": "Interpolate.tla defines default parsing on top of BibLibrary (first-definition string index, lexical enclosing "
            "test, replacement by the string's source value, one strip) and states ResolvedExactly independently (bare word = "
            "key of the first @string with that key anywhere in the document); MC_Interp enumerates one entry with 1-2 fields "
            "over the 8-value reference pool among every sequence of up to 2 (quick: 6.2e3 documents) / 3 of five @string "
            "templates (second definition, other case, chain, concatenation) in every position; every document is parsed "
            "with the default stack in two spellings and compared field by field (value, recorded keys, strings, wrapped "
            "duplicates untouched); random reference-heavy derivations with colliding keys go through the TLC oracle.",
    "ref": "6/C11", "technique": "TLA+ spec (Interpolate.tla over BibLibrary/BibSplitter) model-checked with TLC + bounded-exhaustive replay + TLC oracle on random derivations",
    "note": TB + "; one-level resolution; content = source value minus one enclosing layer",
}

CHECKS["C06"] = {
    "text": "Writer.tla defines writer.write as a function producing the output string (field line assembly, padding, auto "
            "column over live entries, comma rule, separator between blocks only, failed blocks under the configured warning "
            "with {n} = line count) and TLC proves ColumnLaw and AutoAligned (one minimal column) for every enumerated pair; "
            "(A) all 85 entry shapes with key lengths {1,4,9,15} x 152 formats and (B) every library of up to 2 (quick) / 3 "
            "blocks over 10 block templates x 108 formats are replayed on writer.write and write_string(unparse_stack=[]) "
            "comparing the exact text and the unchanged format object; libraries parsed from random documents (failed and "
            "duplicate blocks included) x random formats (value_column 0..40/auto) are validated by a TLC trace spec that "
            "recomputes the text.",
    "ref": "6/C06", "technique": "TLA+ spec (Writer.tla, string-producing) + TLC bounded-exhaustive replay with exact text comparison + TLC trace validation",
    "note": TB + "; libraries as producible by the library (string values, failed blocks with raw text)",
}

CHECKS["C05"] = {
    "text": "RoundTrip.tla states the round trip at token level: content of the parsed library (Interpolate!Parsed over "
            "BibSplitter!Run) -> tokens written by the default write stack and the writer -> parsed again; MC_RoundTrip proves "
            "for every document of up to 2 (quick: 1.3e3 documents) / 3 blocks over 36 templates per position (references, "
            "nested braces, quotes around braces, concatenations, multi-line values, strings, preamble, comments) x 32 "
            "token-level formats that the content is preserved, the written tokens are a fixpoint and stay in the dialect. "
            "On the code, grammar-derived documents (constructive product, random derivations, reference-heavy documents; "
            "only those the grammar recogniser accepts and whose parse conforms to Interpolate!Parsed) are taken through "
            "parse -> write -> parse -> write for 4-8 of 128 formats (all 128 for a subset) and TLC checks per recorded round "
            "trip Content(lib2) = Content(lib1) and s2 = s1 (Trace_Pipeline); conformance of the written text to Writer.tla and "
            "of its parse to the specification is recorded as evidence, not as a C05 verdict.",
    "ref": "6/C05", "technique": "TLA+ token-level round-trip spec model-checked with TLC + TLC validation of recorded round trips of the real entry points",
    "note": TB + "; documents of the dialect with distinct keys; whitespace-only indent/separator",
}

CHECKS["C20"] = {
    "text": "Entrypoints.tla states parse_string/write_string as stack builders plus left folds over abstract middlewares "
            "(probes that log what they see, remove/add-enclosing, month-int) and the per-block splice protocol; "
            "MC_Entrypoints enumerates every stack of 0..2 (quick) / 0..3 middlewares in each argument position x "
            "{list, tuple, one-shot iterator}, both-arguments configurations, and 14 result kinds x 5 block types, checking "
            "InvOrder and InvBoth; every configuration is replayed on the real entry points with probe middlewares (the log "
            "and the number of brace layers make the order of application observable; the written text is compared with "
            "Writer!Write), splice results on BlockMiddleware.transform, and the file clauses on real temporary files in "
            "utf-8/latin-1/gbk/utf-16 with path, file-object and StringIO targets.",
    "ref": "6/C20", "technique": "TLA+ spec (Entrypoints.tla over Writer.tla) + TLC complete configuration enumeration replayed into the entry points",
    "note": TB + "; probe middlewares written in the harness; stacks that hand an int to RemoveEnclosing are skipped (type-state)",
}

CHECKS["C07"] = {
    "text": "Middleware.tla models the heap (library -> block list -> blocks -> field list/fields/values/metadata, with "
            "identities, references and version counters) and the six ways a shipped middleware treats its input (per-block "
            "deepcopy, in place, library deepcopy, sorter, default write stack); MC_Middleware checks InvInputFrozen, "
            "InvNoAlias and StepNoAlias for all stacks of up to 3 applications and shows with a second configuration that "
            "the deviation ShallowBlockCopy violates them. On the code, all 43 (middleware class, option set) pairs in copy "
            "mode are applied alone, in all/sampled pairs and sampled triples to 6 libraries parsed at different value "
            "type-states (with failed, duplicate, duplicate-field and middleware-error blocks), plus write_string twice with "
            "three formats; each application is an event (shared mutable object ids, input projection before/after, exception, "
            "value types) validated by TLC against the copy-mode action, an exception being admitted only where the "
            "type-state of the pipeline makes the middleware inapplicable.",
    "ref": "6/C07", "technique": "TLA+ heap-level spec (Middleware.tla) model-checked with TLC + TLC validation of recorded middleware applications",
    "note": TB + "; Python id()/deepcopy semantics; sharing of immutable values and exception objects is not aliasing",
}

CHECKS["C12"] = {
    "text": "AndSplit.tla states the six-step scanner of split_multiple_persons_names at character-class level (with the "
            "escape step) and, independently, the set of separator occurrences of one left-to-right pass; MC_AndSplit "
            "enumerates every sequence of up to 5 (quick: 1.1e5) / 6 (1.1e6) macro tokens {word character, and, an, d, blank, "
            "{, }, escape+letter, escape+'a', escape+blank} and proves Conservation, Idempotent and, on brace-balanced input, "
            "Split = RefPieces; every sequence is concretised in three spellings (case of 'and', blank kinds, escapes, '~', ',') "
            "and run through split_multiple_persons_names and SeparateCoAuthors/MergeCoAuthors on author/editor/translator; "
            "random author lists of 1-60 names are abstracted to classes, split by TLC and compared, with idempotence on the "
            "code.",
    "ref": "6/C12", "technique": "TLA+ spec (AndSplit.tla: operational scanner vs declarative separator rule) model-checked with TLC + bounded-exhaustive replay + TLC oracle on random lists",
    "note": TB + "; character classes a/n/d/x/w/{/}/backslash",
}

CHECKS["C13"] = {
    "text": "NameParse.tla transcribes the single-pass tokenizer (sections, words, word case with brace level and special "
            "characters, strict-mode errors) and the partition of the three BibTeX forms, and states independently the "
            "top-level word structure, BibTeX's case rule (within InCaseScope) and the reference partition; MC_NameParse proves "
            "InvErrors and InvParts for every name of up to 5 (quick: 1.8e5) / 6 character tokens over 11 classes and every name "
            "of up to 5 / 6 words x 3 cases x 3 separators. Every name is concretised in 2-3 spellings and run through "
            "parse_single_name_into_parts (strict) and SplitNameParts (invalid name -> MiddlewareErrorBlock keeping the entry, "
            "library still writable). The repository's 149 BibTeX-derived corpus cases are fed to TLC first (specification = "
            "corpus, otherwise the machinery fails) and, with random names of 1-12 words, compared with the code.",
    "ref": "6/C13", "technique": "TLA+ spec (NameParse.tla: operational parser vs BibTeX reference rules) model-checked with TLC + bounded-exhaustive replay + corpus-validated TLC oracle",
    "note": TB + "; alphabet: backslash only before a letter or accent; case compared within InCaseScope",
}
CHECKS["C14"] = {
    "text": "NameMerge.tla states merge_last_name_first over word token sequences and the inverse law "
            "parse(merge(parse(name))) = parse(name); MC_NameParse proves InvInverse for every enumerated valid name with a "
            "non-empty last part (chars and words parts). On the code every such name, concretised and grouped into lists of "
            "1-3 persons with varied ' and ' spellings, goes through the function pair and (every sixth list) through "
            "parse_string(append_middleware=[SeparateCoAuthors, SplitNameParts]) / write_string(prepend_middleware="
            "[MergeNameParts, MergeCoAuthors]) on author/editor/translator; random lists of 1-6 random names likewise.",
    "ref": "6/C14", "technique": "TLA+ spec (NameMerge.tla over NameParse.tla) model-checked with TLC + bounded-exhaustive replay through functions and entry-point stacks",
    "note": TB + "; domain restrictions of the statement (non-empty last, no word 'and', no trailing odd backslash)",
}

CHECKS["C18"] = {
    "level": "model_checking",
    "text": "Latex.tla treats the third-party conversion as an uninterpreted, possibly failing function and states scope/types "
            "(only string field values, NameParts strings and @string values change and stay strings) and containment (a "
            "failing conversion yields a middleware-error block, never an exception); MC_Latex proves ScopeOK and "
            "ContainmentOK for every library of up to 2 (quick) / 3 blocks over all slot kinds x every set of failing "
            "conversions, and every case is replayed on both middlewares with tagging/raising probe converters, in place "
            "and in copy mode; scope and types are also checked with the real converters under all 18 constructor option "
            "sets on parsed libraries at three type-states. Clause (iii), Dec(Enc(t)) = t, is a contract on pylatexenc that "
            "no model can derive: MC_LatexRT only enumerates symbol-class sequences (<= 3 quick / 4) which the harness "
            "concretises and checks under 4 encoder option sets, plus random longer texts - exploration-level assurance for "
            "this clause, with one known finding (URLs containing TeX-special characters).",
    "ref": "6/C18", "technique": "TLA+ spec (Latex.tla) model-checked with TLC + probe-converter replay; round-trip contract by TLC-enumerated conformance",
    "note": TB + "; pylatexenc's conversion tables are data outside the model; clause (iii) is exploration-level",
}

NOT_APPLICABLE = {}
for _e in ENGINES:
    _e["serves_properties"] = sorted(CHECKS)
