"""Grammar derivations of the supported BibTeX dialect (DESIGN 3.3) together with their ground truth.

A document is assembled from blocks; while assembling, the generator records for every block what the property
C02 says must come out: class, raw text, start line, type/key/fields/values (already free of surrounding
whitespace).  Used by C02 (ground truth), C05, C09, C11 (documents with controlled keys and values).
"""
from __future__ import annotations

import itertools
import random
from typing import Dict, List, Optional, Sequence, Tuple

VALUES = ["1", "abc", "{x}", '"x"', "{a{b}c}", '"a{b}c"', '{a"b}', "{a,b=c}", '"a,b=c"', "{a\nb}", 'x # "y"',
          "{a} # {b}", '"a" # b', "{a\\}b}", '"a \\" b"', "{a@b}", "{}", '""', "{ a }", "2001", "{\\'e}", "ab # cd # {e}",
          '"a {b} {c{d}} e"', "{% x}", "{a\r\nb}", "{rows end with \\\\} in LaTeX}", '"q \\\\" q"', "{open \\\\{ only}",
          '"a {"} b"', "{a \\\\ b}", '" x "', '"pad "', "{\tt}", '" "',
          "{007}", "01", '"0012"', "{٢٠٢٠}", "000", "{12}",
          "{u\u0308ber}", '"\u212bngstr\u00f6m \u2126"', "{e\u0301}",
          '{"Alea iacta est"}', '{"q"}', '"{b}"', '{{"x"}}', '"{"}"']       # a value whose content is itself enclosed / a quotation       # text is kept code point by code point (no normalisation)      # digit strings are text: leading zeros and non-ASCII digits are kept
WS = ["", " ", "\n", "\r\n", "\t", "  ", " \n ", "\u00a0", "\x0c ", " \u2003"]
GAPS = ["", "% comment", "free text = , \" } {", "a\\@b", "x\ny", "#", "n\u0303 \u212a", "line one  \nline two\t\n  last"]
ETYPES = ["article", "Book", "commentary", "stringent", "x1", "INPROCEEDINGS", "preambles", "é",
          "Straße", "ΛΌΓΟΣ", "ſtring", "ǅx"]      # lower() differs from casefold() / is not ASCII-only
# (an entry type holding U+0130 lower-cases to i + U+0307, which is no word character: see C05 known finding; only fixed witnesses use it)
FKEYS = ["title", "Author", "year", "a", "A", "f-1", "x.y", "note", "volume", "number", "month", "pages"]
ATSP = ["", " ", "\t"]


class Doc:
    def __init__(self):
        self.parts: List[str] = []
        self.truth: List[dict] = []
        self.pos = 0

    def add(self, s: str):
        self.parts.append(s)
        self.pos += len(s)

    @property
    def text(self):
        return "".join(self.parts)

    def line(self):
        return self.text.count("\n")


def wsp(rnd, pool=WS):
    return rnd.choice(pool)


def gen_entry(d: Doc, rnd, key: str, nfields: Optional[int] = None, values: Sequence[str] = VALUES,
              fkeys: Sequence[str] = FKEYS, ws=WS, etype: Optional[str] = None, fields=None):
    et = etype or rnd.choice(ETYPES)
    at = "@" + et + rnd.choice(ATSP)
    start, line = d.pos, d.line()
    d.add(at + "{" + wsp(rnd, ws) + key + wsp(rnd, ws))
    if fields is None:
        n = rnd.randint(0, 4) if nfields is None else nfields
        ks = rnd.sample(list(fkeys), min(n, len(fkeys)))
        fields = [(k, rnd.choice(list(values))) for k in ks]
    truth_fields = []
    if fields or rnd.random() < 0.5:
        d.add(",")
        for i, (k, v) in enumerate(fields):
            d.add(wsp(rnd, ws))
            kline = d.line()
            d.add(k + wsp(rnd, ws))
            fline = d.line()                       # line of the "="
            d.add("=" + wsp(rnd, ws) + v + wsp(rnd, ws))
            truth_fields.append([k, v, fline, kline == fline])
            if i < len(fields) - 1 or rnd.random() < 0.4:
                d.add(",")
        d.add(wsp(rnd, ws))
    d.add("}")
    raw = d.text[start:d.pos]
    d.truth.append({"cls": "entry", "raw": raw, "line": line, "type": et.lower(), "key": key, "fields": truth_fields})


def gen_string(d: Doc, rnd, key: str, value: Optional[str] = None, values=VALUES, ws=WS):
    v = value if value is not None else rnd.choice([x for x in values])
    start, line = d.pos, d.line()
    at = rnd.choice(["@string", "@String", "@STRING "])
    d.add(at + "{" + wsp(rnd, ws) + key + wsp(rnd, ws) + "=" + wsp(rnd, ws) + v + wsp(rnd, ws) + "}")
    d.truth.append({"cls": "string", "raw": d.text[start:d.pos], "line": line, "key": key, "value": v})


def gen_preamble(d: Doc, rnd):
    inner = rnd.choice(['"\\newcommand{\\x}{y}"', " a {b} c ", "", "x = y, z", '"a" # b', "\n p \n"])
    start, line = d.pos, d.line()
    d.add(rnd.choice(["@preamble", "@Preamble\t"]) + "{" + inner + "}")
    d.truth.append({"cls": "preamble", "raw": d.text[start:d.pos], "line": line, "value": inner})


def gen_comment(d: Doc, rnd):
    inner = rnd.choice(["c", " some text ", "a {b} c", "x = 1, y", '"q', "\n multi\n line \n", "jabref-meta: {x;}", "", " ", "\n",
                        "u\u0308ber \u212b \u2126", "{}"])
    start, line = d.pos, d.line()
    d.add(rnd.choice(["@comment", "@Comment ", "@COMMENT"]) + "{" + inner + "}")
    d.truth.append({"cls": "ecomment", "raw": d.text[start:d.pos], "line": line, "comment": inner.strip()})


def gen_gap(d: Doc, rnd, gap: Optional[str] = None, force_nl: bool = False):
    g = rnd.choice(GAPS) if gap is None else gap
    pre = rnd.choice(["", "\n", "\n\n", " ", "\r\n"])
    post = rnd.choice(["\n", "\n\n", " ", "\r\n", ""])
    if g:
        d.add(pre)
        start, line = d.pos, d.line()
        d.add(g)
        d.truth.append({"cls": "icomment", "raw": g, "line": line, "comment": g})
        d.add(post)
    else:
        d.add(rnd.choice(["", "\n", "\n\n", " \n", "\r\n"]))


def random_doc(rnd, nblocks: int, keypool: Optional[Sequence[str]] = None, dup_ok: bool = False, **kw) -> Doc:
    d = Doc()
    used_e, used_s = set(), set()
    gen_gap(d, rnd)
    for i in range(nblocks):
        kind = rnd.choices(["entry", "string", "preamble", "comment"], [6, 2, 1, 1])[0]
        if kind == "entry":
            key = rnd.choice(list(keypool)) if keypool else "key%d" % i
            if not dup_ok and key in used_e:
                key = "%s_%d" % (key, i)
            used_e.add(key)
            gen_entry(d, rnd, key, **kw)
        elif kind == "string":
            key = rnd.choice(list(keypool)) if keypool else "s%d" % i
            if not dup_ok and key in used_s:
                key = "%s_%d" % (key, i)
            used_s.add(key)
            gen_string(d, rnd, key)
        elif kind == "preamble":
            gen_preamble(d, rnd)
        else:
            gen_comment(d, rnd)
        gen_gap(d, rnd)
    return d


def constructive(limit: Optional[int] = None):
    """Systematic product: every block template x value x whitespace choice x trailing comma x gaps.
    Whitespace is the same at every slot of one document (the random generator varies it per slot)."""
    class Fixed:
        """rnd stand-in that always answers with fixed choices"""

        def __init__(self, ws, comma, gap_i):
            self.ws, self.comma, self.gap_i = ws, comma, gap_i

        def choice(self, seq):
            seq = list(seq)
            if seq == WS or (len(seq) == 1 and seq[0] in WS):
                return self.ws
            return seq[self.gap_i % len(seq)]

        def random(self):
            return 0.0 if self.comma else 0.99

        def randint(self, a, b):
            return a

        def sample(self, seq, k):
            return list(seq)[:k]

        def choices(self, seq, w=None):
            return [list(seq)[0]]
    n = 0
    for ws in WS:
        for comma in (False, True):
            for gi in range(3):
                fx = Fixed(ws, comma, gi)
                for v in VALUES:
                    d = Doc()
                    gen_gap(d, fx, GAPS[gi])
                    gen_entry(d, fx, "k1", fields=[("title", v)], ws=[ws], etype=ETYPES[gi])
                    gen_gap(d, fx, GAPS[(gi + 1) % 3])
                    gen_string(d, fx, "s1", v, ws=[ws])
                    gen_gap(d, fx, "")
                    yield d
                    n += 1
                    if limit and n >= limit:
                        return
                for v1, v2 in itertools.product(VALUES[::2], VALUES[1::3]):
                    d = Doc()
                    gen_entry(d, fx, "k1", fields=[("a", v1), ("B", v2)], ws=[ws], etype="article")
                    gen_gap(d, fx, "")
                    gen_comment(d, fx)
                    gen_preamble(d, fx)
                    gen_entry(d, fx, "k2", fields=[], ws=[ws], etype="misc")
                    yield d
                    n += 1
                    if limit and n >= limit:
                        return


def truth_diff(truth: List[dict], obs: List[dict]) -> Dict[str, str]:
    """Compare the generator's ground truth with an observation (splitobs.observe format)."""
    if [t["cls"] for t in truth] != [o["cls"] for o in obs]:
        return {"blocks": f"observed {[o['cls'] for o in obs]} expected {[t['cls'] for t in truth]}"}
    diff: Dict[str, str] = {}
    for i, (t, o) in enumerate(zip(truth, obs)):
        for k in ("raw", "type", "key", "value", "comment"):
            ov = o.get(k)
            # "all up to surrounding whitespace"
            if k in t and (ov.strip() if isinstance(ov, str) else ov) != t[k].strip():
                diff.setdefault("raw" if k == "raw" else "content", f"block {i} ({t['cls']}) {k}={o.get(k)!r} expected {t[k]!r}")
        if t["line"] != o["line"]:
            diff.setdefault("start_line", f"block {i} ({t['cls']}) start_line {o['line']} expected {t['line']}")
        if "fields" in t:
            if [f[:2] for f in t["fields"]] != [f[:2] for f in o["fields"]]:
                diff.setdefault("content", f"block {i} fields {[f[:2] for f in o['fields']]!r} expected {[f[:2] for f in t['fields']]!r}")
            else:
                for tf, of in zip(t["fields"], o["fields"]):
                    if tf[3] and tf[2] != of[2]:
                        diff.setdefault("field_line", f"block {i} field {tf[0]!r} start_line {of[2]} expected {tf[2]}")
    return diff
