"""Shared machinery: paths, TLC runner, evidence, known findings, verdicts.

Everything a check needs that is not specific to one property lives here.
Exit codes:  0 = property held on everything explored (KNOWN-FINDING lines allowed)
             1 = at least one VIOLATION (printed as `VIOLATION property=<id> replay=<path>`)
             2 = the machinery itself failed (TLC crashed, spec error, model (T1) failure)
"""
from __future__ import annotations

import atexit
import json
import os
import re
import shutil
import subprocess
import sys
import tempfile
import time
from typing import Any, Callable, Dict, Iterable, List, Optional

VERIF = os.path.dirname(os.path.dirname(os.path.abspath(__file__)))
REPO = os.environ.get("VERIF_REPO", "/repo")
SPEC = os.path.join(VERIF, "spec")
EVIDENCE = os.environ.get("VERIF_EVIDENCE_DIR") or os.path.join(VERIF, "evidence")
REPLAYS = os.environ.get("VERIF_REPLAY_DIR") or os.path.join(VERIF, "replays")
KNOWN_FILE = os.path.join(VERIF, "known_findings.json")
TLA_JAR = "/opt/veriftools/tla/tla2tools.jar"
TLA_DEPS = "/opt/veriftools/tla/CommunityModules-deps.jar"
GUARD = "BIBTEXPARSER_VERIF"


class MachineryError(Exception):
    """Raised when the verification machinery (not the code under test) fails."""


# ----------------------------------------------------------------------------
# code under test
# ----------------------------------------------------------------------------
def import_repo():
    """Import bibtexparser from REPO's working tree (never from a stale copy)."""
    if REPO not in sys.path or sys.path[0] != REPO:
        sys.path.insert(0, REPO)
    os.environ.setdefault(GUARD, "1")
    import bibtexparser  # noqa

    got = os.path.realpath(os.path.dirname(os.path.dirname(bibtexparser.__file__)))
    if got != os.path.realpath(REPO):
        raise MachineryError(f"bibtexparser imported from {got}, expected {REPO}")
    import logging

    logging.disable(logging.CRITICAL)
    import warnings

    warnings.simplefilter("ignore")
    pollute(bibtexparser)
    return bibtexparser


_POLLUTED = False


def pollute(bib):
    """Every check runs in a process in which the public API has already been USED and the values it handed out have been
    EDITED by the caller, as any application may do.  A change that keeps state between calls (a cached default stack, a
    memoised result, a module-level set that is mutated, a mutable default argument) then shows up in the checks proper,
    which otherwise only ever make fresh, independent calls."""
    global _POLLUTED
    if _POLLUTED:
        return
    _POLLUTED = True
    m = bib.middlewares
    M = bib.model
    try:
        for factory in (m.default_parse_stack, m.default_unparse_stack):
            for flag in (True, False):
                st = factory(allow_inplace_modification=flag)
                if isinstance(st, list):
                    st.clear()
                    st.append("not a middleware")
        nm = m.names
        p = nm.parse_single_name_into_parts("Jean~Paul de la Tour, Jr, Ab~Cd", strict=False)
        for part in (p.first, p.von, p.last, p.jr):
            part.append("edited")
        r = nm.split_multiple_persons_names("x~and~y and {a and b} and z\\ and w")
        r.append("edited")
        lib = bib.parse_string("@string{s = {v}}\n@article{k, author = {A B and C~D, E}, title = s, month = 3}\n@misc{m}\n% c\n",
                               append_middleware=[m.SeparateCoAuthors(), m.SplitNameParts(), m.MonthIntMiddleware()])
        for b in lib.blocks:
            b.parser_metadata["edited"] = True
            if isinstance(b, M.Entry):
                b.fields.append(M.Field("edited", "x"))
                b.key += "-edited"
        text = bib.write_string(lib)
        fmt = bib.BibtexFormat()
        fmt.indent, fmt.value_column, fmt.block_separator, fmt.trailing_comma = "<>", 33, "<sep>", True
        bib.write_string(bib.parse_string(text), bibtex_format=fmt)
        e = M.Entry("a", "k", [])
        e.fields.append(M.Field("edited", "x"))
        e2 = M.Entry("a", "k2", [])
        if e2.fields:
            pass  # a shared default would show in the checks
        L = bib.Library()
        L.add(M.Preamble("edited"))
        L.blocks.append(M.Preamble("edited behind the library's back"))
    except Exception:  # noqa: the prelude must never fail a check by itself
        pass


# ----------------------------------------------------------------------------
# scratch space
# ----------------------------------------------------------------------------
_SCRATCH: Optional[str] = None


def scratch() -> str:
    global _SCRATCH
    if _SCRATCH is None:
        _SCRATCH = tempfile.mkdtemp(prefix="verif-")
        if not os.environ.get("VERIF_KEEP"):
            atexit.register(lambda: shutil.rmtree(_SCRATCH, ignore_errors=True))
    return _SCRATCH


# ----------------------------------------------------------------------------
# TLC
# ----------------------------------------------------------------------------
class TLCResult:
    """Statistics of one TLC run; exported lines are streamed from the output file."""

    def __init__(self, path: str, rc: int, wall: float, cmd: List[str]):
        self.path = path
        self.rc = rc
        self.wall = wall
        self.cmd = cmd
        self.generated = 0
        self.distinct = 0
        self.depth = 0
        self.exported = 0
        keep: List[str] = []
        with open(path, errors="replace") as fh:
            for line in fh:
                if line.startswith('"'):
                    self.exported += 1
                    continue
                keep.append(line.rstrip("\n"))
                if len(keep) > 4000:
                    del keep[:2000]
        self.log = "\n".join(keep)
        out = self.log
        m = re.search(r"(\d+) states generated, (\d+) distinct states found", out)
        if m:
            self.generated = int(m.group(1))
            self.distinct = int(m.group(2))
        m = re.search(r"depth of the complete state graph search is (\d+)", out)
        if m:
            self.depth = int(m.group(1))
        self.completed = "Model checking completed. No error has been found." in out
        self.sim_traces = 0

    @property
    def out(self) -> str:
        with open(self.path, errors="replace") as fh:
            return fh.read()

    @property
    def transitions(self) -> int:
        # every generated state beyond the initial ones is the target of one explored transition
        return max(self.generated - 1, 0)

    def raw_lines(self) -> Iterable[str]:
        with open(self.path, errors="replace") as fh:
            for line in fh:
                if line.startswith('"{') or line.startswith('"['):
                    yield line

    def json_lines(self) -> Iterable[Any]:
        """Objects exported by `PrintT(ToJson(x))` (printed as a quoted TLA+ string)."""
        for line in self.raw_lines():
            yield parse_export(line)

    def error_excerpt(self) -> str:
        keep = [l for l in self.log.splitlines()
                if not l.startswith(("Parsing file", "Semantic processing", "Linting of"))]
        return "\n".join(keep[-60:])


def parse_export(line: str) -> Any:
    try:
        return json.loads(json.loads(line))
    except Exception as e:  # torn line = machinery failure
        raise MachineryError(f"cannot parse TLC export line: {line[:200]}") from e


def run_tlc(
    module: str,
    cfg: str,
    *,
    workers: int = 16,
    timeout: int = 900,
    env: Optional[Dict[str, str]] = None,
    extra: Optional[List[str]] = None,
    expect_complete: bool = True,
    heap: str = "8g",
    depth_first: bool = False,
    out_file: Optional[str] = None,
    defs: Optional[Dict[str, str]] = None,
) -> TLCResult:
    """Run TLC on spec/<module>.tla with the given cfg text. Scratch copies; nothing left behind."""
    work = tempfile.mkdtemp(prefix="tlc-", dir=scratch())
    for f in os.listdir(SPEC):
        if f.endswith(".tla"):
            shutil.copy(os.path.join(SPEC, f), work)
    if defs:
        # constants that a .cfg cannot express (tuples, records): a generated wrapper module defines them
        wrapper = "G_" + module
        with open(os.path.join(work, wrapper + ".tla"), "w") as fh:
            fh.write(f"---- MODULE {wrapper} ----\nEXTENDS {module}\n")
            for k, v in defs.items():
                fh.write(f"G_{k} == {v}\n")
            fh.write("====\n")
        cfg = cfg + "\nCONSTANTS\n" + "".join(f" {k} <- G_{k}\n" for k in defs)
        module = wrapper
    with open(os.path.join(work, module + ".cfg"), "w") as fh:
        fh.write(cfg)
    jopts = ["-XX:+UseParallelGC", f"-Xmx{heap}", "-Xss64m", f"-Djava.io.tmpdir={work}"]
    if depth_first:
        jopts.append("-Dtlc2.tool.queue.IStateQueue=StateDeque")
    cmd = (
        ["java"]
        + jopts
        + ["-cp", f"{TLA_JAR}:{TLA_DEPS}", "tlc2.TLC", "-workers", str(workers), "-metadir",
           os.path.join(work, "meta"), "-noGenerateSpecTE", "-config", module + ".cfg"]
        + (extra or [])
        + [module + ".tla"]
    )
    e = dict(os.environ)
    e.pop("JAVA_TOOL_OPTIONS", None)
    if env:
        e.update(env)
    t0 = time.time()
    try:
        if out_file is None:
            out_file = os.path.join(work, "tlc.out")
        with open(out_file, "w") as ofh:
            p = subprocess.run(cmd, cwd=work, env=e, stdout=ofh, stderr=subprocess.STDOUT, preexec_fn=_lift_memory_limit,
                               timeout=timeout)
        rc = p.returncode
    except subprocess.TimeoutExpired:
        raise MachineryError(f"TLC timed out after {timeout}s on {module}")
    res = TLCResult(out_file, rc, time.time() - t0, cmd)
    shutil.rmtree(os.path.join(work, "meta"), ignore_errors=True)
    if expect_complete and not res.completed and "-simulate" not in (extra or []):
        raise MachineryError(
            f"TLC did not complete cleanly on {module} (rc={rc}). This is a failure of the "
            f"model/machinery (rule R5), not a verdict about the code:\n{res.error_excerpt()}"
        )
    return res


def tla_str(s: str) -> str:
    return '"' + s.replace("\\", "\\\\").replace('"', '\\"') + '"'


def tla_val(v: Any) -> str:
    """Python value -> TLA+ literal (for generated cfg/MC constants)."""
    if isinstance(v, bool):
        return "TRUE" if v else "FALSE"
    if isinstance(v, int):
        return str(v)
    if isinstance(v, str):
        return tla_str(v)
    if isinstance(v, (list, tuple)):
        return "<<" + ", ".join(tla_val(x) for x in v) + ">>"
    if isinstance(v, (set, frozenset)):
        return "{" + ", ".join(tla_val(x) for x in sorted(v, key=repr)) + "}"
    if isinstance(v, dict):
        if not v:
            return "<<>>"
        return "[" + ", ".join(f"{k} |-> {tla_val(x)}" for k, x in v.items()) + "]"
    raise TypeError(type(v))


# ----------------------------------------------------------------------------
# known findings
# ----------------------------------------------------------------------------
def canon(x: Any) -> str:
    return json.dumps(x, sort_keys=True, separators=(",", ":"), ensure_ascii=True)


def load_known() -> List[dict]:
    if not os.path.exists(KNOWN_FILE):
        return []
    with open(KNOWN_FILE) as fh:
        return json.load(fh)


# ----------------------------------------------------------------------------
# a check run
# ----------------------------------------------------------------------------
class Check:
    def __init__(self, pid: str, tier: str, seed: int, level: str = "model_checking"):
        self.pid = pid
        self.tier = tier
        self.seed = seed
        self.level = level
        self.t0 = time.time()
        self.violations: List[dict] = []
        self.known_hits: Dict[str, dict] = {}
        self.known_counts: Dict[str, int] = {}
        self.states = 0
        self.transitions = 0
        self.traces = 0
        self.evaluations = 0
        self.nontrivial = set()
        self.samples: List[Any] = []
        self.extra: Dict[str, Any] = {}
        self.clauses: Dict[str, int] = {}
        self.assumptions: List[str] = []
        self.exhaustive: Optional[bool] = None
        self.tlc_runs: List[dict] = []
        self._known = [k for k in load_known() if k.get("property") == pid and k.get("status") == "known"]
        self._nviol_files = 0
        self.max_replays = 25

    # -- bookkeeping -------------------------------------------------------
    def add_tlc(self, res: TLCResult, what: str, count_states: bool = True):
        if count_states:
            self.states += res.distinct
            self.transitions += res.transitions
        self.tlc_runs.append({"what": what, "generated": res.generated, "distinct": res.distinct,
                              "depth": res.depth, "wall_s": round(res.wall, 2)})

    def clause(self, name: str, n: int = 1):
        self.clauses[name] = self.clauses.get(name, 0) + n

    def sample(self, s: Any, cap: int = 3):
        if len(self.samples) < cap:
            self.samples.append(s)

    def note_case(self, key: Any = None, nontrivial: bool = True):
        self.evaluations += 1
        if nontrivial and key is not None and len(self.nontrivial) < 5_000_000:
            self.nontrivial.add(hash(key))

    # -- verdicts ----------------------------------------------------------
    def mismatch(self, clause: str, input: Any, observed: Any, expected: Any,
                 signature: Optional[dict] = None, spec: Optional[dict] = None, kind: str = ""):
        """Record a conformance mismatch. A signature equal to a `known` entry is a KNOWN-FINDING."""
        if signature is not None:
            c = canon(signature)
            for k in self._known:
                if canon(k["signature"]) == c:
                    self.known_hits[c] = k
                    self.known_counts[c] = self.known_counts.get(c, 0) + 1
                    return
        rec = {"property": self.pid, "clause": clause, "tier": self.tier, "seed": self.seed,
               "kind": kind, "input": input, "observed": observed, "expected": expected,
               "signature": signature, "spec": spec or {},
               "how": f"bin/check {self.pid} --replay <this file>"}
        self.violations.append(rec)

    def finish(self) -> int:
        wall = time.time() - self.t0
        os.makedirs(EVIDENCE, exist_ok=True)
        lines = []
        for c, k in self.known_hits.items():
            lines.append(f"KNOWN-FINDING: property={self.pid} {k['what']} (seen {self.known_counts[c]}x)")
        # group violations by (clause, signature) so that one defect is one line, keep first as replay
        seen = {}
        for v in self.violations:
            key = (v["clause"], canon(v.get("signature")))
            seen.setdefault(key, []).append(v)
        paths = []
        d0 = os.path.join(REPLAYS, self.pid)
        if os.path.isdir(d0):      # replays of an earlier run of this tier are stale
            for f in os.listdir(d0):
                if f.startswith(f"{self.tier}-"):
                    os.remove(os.path.join(d0, f))
        if seen:
            d = os.path.join(REPLAYS, self.pid)
            os.makedirs(d, exist_ok=True)
            for n, (key, vs) in enumerate(seen.items()):
                if n >= self.max_replays:
                    break
                v = dict(vs[0])
                v["same_clause_count"] = len(vs)
                path = os.path.join(d, f"{self.tier}-{self.seed}-{n}.json")
                with open(path, "w") as fh:
                    json.dump(v, fh, indent=1, ensure_ascii=True, default=str)
                paths.append(path)
                lines.append(f"VIOLATION property={self.pid} replay={path}")
        cov = {
            "states": self.states,
            "transitions": self.transitions,
            "traces_validated_against_impl": self.traces,
            "samples": self.samples if self.samples else ["(no sample recorded)"],
            "evaluations": max(self.evaluations, 1),
            "distinct_nontrivial": len(self.nontrivial),
            "rule": self.extra.pop("rule", "see DESIGN.md section for this property"),
            "clauses_evaluated": self.clauses,
            "tlc_runs": self.tlc_runs,
            "known_findings_matched": {json.loads(c).get("id", c): n for c, n in self.known_counts.items()},
        }
        if self.exhaustive is not None:
            cov["exhaustive"] = self.exhaustive
            cov["exhaustive_scope"] = ("the bounded model of the T1/T2 runs listed in tlc_runs was explored completely and every "
                                       "exported case was replayed into the code; the T3 part (random/large inputs) is sampled")
        cov.update(self.extra)
        ev = {
            "property_id": self.pid, "tier": self.tier, "seed": self.seed, "level": self.level,
            "coverage": cov, "assumptions": self.assumptions, "wall_s": round(wall, 2),
            "violations": len(seen),
        }
        with open(os.path.join(EVIDENCE, f"{self.pid}.json"), "w") as fh:
            json.dump(ev, fh, indent=1, ensure_ascii=True, default=str)
        for l in lines:
            print(l)
        nclauses = sum(self.clauses.values())
        print(f"[{self.pid}] tier={self.tier} seed={self.seed} states={self.states} "
              f"transitions={self.transitions} impl_traces={self.traces} clause_evals={nclauses} "
              f"violations={len(seen)} known={len(self.known_hits)} wall={wall:.1f}s")
        sys.stdout.flush()
        return 1 if seen else 0


def chunks(seq: List[Any], n: int) -> List[List[Any]]:
    return [seq[i:i + n] for i in range(0, len(seq), n)]


# ----------------------------------------------------------------------------
# T3: trace validation, many cases per JVM, several JVMs in parallel
# ----------------------------------------------------------------------------
TRACE_CFG = "INIT Init\nNEXT Next\nCHECK_DEADLOCK FALSE\n"


def validate_traces(module: str, cases: List[dict], *, shards: int = 8, cfg: str = TRACE_CFG,
                    timeout: int = 1200, heap: str = "3g"):
    """Validate recorded cases against spec/<module>.tla. Returns (rejects, tlc_results).

    Every shard must print {"done": n} with n = number of cases it was given; otherwise the
    machinery failed (exit 2), which is never reported as a violation."""
    from concurrent.futures import ThreadPoolExecutor

    if not cases:
        return TraceVerdict([], [], [])
    shards = max(1, min(shards, len(cases)))
    per = (len(cases) + shards - 1) // shards
    parts = chunks(cases, per)
    files = []
    for i, part in enumerate(parts):
        path = os.path.join(tempfile.mkdtemp(prefix="trace-", dir=scratch()), f"trace{i}.json")
        with open(path, "w") as fh:
            json.dump(part, fh, ensure_ascii=True)
        files.append(path)

    def one(i):
        return run_tlc(module, cfg, workers=1, timeout=timeout, env={"TRACE_FILE": files[i]},
                       expect_complete=True, heap=heap)

    with ThreadPoolExecutor(max_workers=len(parts)) as ex:
        results = list(ex.map(one, range(len(parts))))
    rejects = []
    notes = []
    for part, res in zip(parts, results):
        done = None
        for obj in res.json_lines():
            if "done" in obj:
                done = obj["done"]
            elif "reject" in obj:
                rejects.append(obj)
            else:
                notes.append(obj)
        if done != len(part):
            raise MachineryError(f"trace validation of {module} did not finish: done={done} "
                                 f"expected={len(part)}\n{res.error_excerpt()}")
    return TraceVerdict(rejects, results, notes)


class TraceVerdict:
    def __init__(self, rejects, results, notes):
        self.rejects = rejects
        self.results = results
        self.notes = notes

    def __iter__(self):  # (rejects, results) for simple callers
        return iter((self.rejects, self.results))


# ----------------------------------------------------------------------------
# containment of the code under test: a change may make it loop or eat memory; the harness must still come to an end
# ----------------------------------------------------------------------------
class Timeout(Exception):
    pass


from contextlib import contextmanager  # noqa: E402


@contextmanager
def time_limit(seconds: float):
    """SIGALRM-based budget for one call into the code under test (main thread of the process only)."""
    import signal

    def handler(signum, frame):
        raise Timeout()
    old = signal.signal(signal.SIGALRM, handler)
    signal.setitimer(signal.ITIMER_REAL, seconds)
    try:
        yield
    finally:
        signal.setitimer(signal.ITIMER_REAL, 0)
        signal.signal(signal.SIGALRM, old)


def limit_memory(gib: float):
    """Soft address-space limit for THIS process: a runaway allocation in the code under test becomes a MemoryError (a
    verdict where exceptions are verdicts) instead of the kernel killing the process.  Children started through run_tlc lift
    the limit again (the hard limit is left alone)."""
    import resource
    try:
        soft, hard = resource.getrlimit(resource.RLIMIT_AS)
        want = int(gib * 2 ** 30)
        if hard != resource.RLIM_INFINITY:
            want = min(want, hard)
        resource.setrlimit(resource.RLIMIT_AS, (want, hard))
    except Exception:  # noqa
        pass


def _lift_memory_limit():
    import resource
    try:
        soft, hard = resource.getrlimit(resource.RLIMIT_AS)
        resource.setrlimit(resource.RLIMIT_AS, (hard, hard))
    except Exception:  # noqa
        pass


# ----------------------------------------------------------------------------
# parallel map over forked workers (the code under test is imported before the fork)
# ----------------------------------------------------------------------------
_PMAP_FN = None


def _pmap_init():
    # (on top of what the forked child already maps)
    try:
        cur = int(open("/proc/self/statm").read().split()[0]) * os.sysconf("SC_PAGE_SIZE") / 2 ** 30
    except Exception:  # noqa
        cur = 0.0
    limit_memory(cur + float(os.environ.get("VERIF_WORKER_GIB", "4")))


def _pmap_call(args):
    return _PMAP_FN(args)


def pmap(fn: Callable[[Any], Any], items: List[Any], procs: int = 16, timeout: Optional[float] = None) -> List[Any]:
    """fn runs in forked children; results are returned in order. Falls back to serial for small inputs.  A worker that
    dies (killed, crashed interpreter) or a map that does not finish within `timeout` seconds ends the check with a
    MachineryError instead of waiting for ever."""
    import multiprocessing as mp
    from concurrent.futures import ProcessPoolExecutor
    from concurrent.futures.process import BrokenProcessPool

    global _PMAP_FN
    if len(items) <= 1 or procs <= 1:
        return [fn(x) for x in items]
    _PMAP_FN = fn
    timeout = timeout or float(os.environ.get("VERIF_PMAP_SECONDS", "5400"))
    ex = ProcessPoolExecutor(max_workers=min(procs, len(items)), mp_context=mp.get_context("fork"), initializer=_pmap_init)
    try:
        futs = [ex.submit(_pmap_call, x) for x in items]
        t_end = time.time() + timeout
        out = []
        for f in futs:
            out.append(f.result(timeout=max(1.0, t_end - time.time())))
        ex.shutdown(wait=True)
        return out
    except BrokenProcessPool:
        _kill_pool(ex)
        raise MachineryError("a worker process died while running the code under test (killed by the kernel or crashed): "
                             "no verdict; run the check's inputs one by one to find the text that does it")
    except TimeoutError:
        _kill_pool(ex)
        raise MachineryError(f"workers did not finish within {timeout:.0f}s: the code under test may hang on one of the inputs")
    except BaseException:
        _kill_pool(ex)
        raise


def _kill_pool(ex):
    try:
        for p in list(getattr(ex, "_processes", {}).values()):
            try:
                p.kill()
            except Exception:  # noqa
                pass
        ex.shutdown(wait=False, cancel_futures=True)
    except Exception:  # noqa
        pass
