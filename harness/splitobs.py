"""Binding of BibSplitter.tla to splitter.Splitter: observation, abstraction, rendering, comparison.

  observe()      public-API projection of the blocks of a parsed library
  locate()       abstraction function of C03: find every raw text in the input, in order (char level)
  render()       concretise the block list computed by the specification (token ranges -> texts)
  compare()      clause-wise comparison of observed and expected blocks
  oracle()       T3 batch: tokens (+ observed failed-block ends, + observed ranges) -> TLC (Oracle_Splitter)
"""
from __future__ import annotations

from typing import Any, Dict, List, Optional, Sequence, Tuple

from . import bibtok, core


# ---------------------------------------------------------------------------
# observation
# ---------------------------------------------------------------------------
def _entry_proj(e) -> Dict[str, Any]:
    return {"type": e.entry_type, "key": e.key, "fields": [[f.key, f.value, f.start_line] for f in e.fields]}


def observe(lib, M) -> List[Dict[str, Any]]:
    out = []
    for b in lib.blocks:
        d: Dict[str, Any] = {"raw": b.raw, "line": b.start_line, "dup": False}
        inner = b
        if isinstance(b, M.DuplicateBlockKeyBlock):
            d["dup"] = True
            d["dup_key"] = b.key
            d["dup_prev_held"] = any(x is b.previous_block for x in lib.blocks)
            d["dup_prev_before"] = any(x is b.previous_block for x in lib.blocks[:len(out)])
            d["dup_same_key"] = getattr(b.previous_block, "key", None) == getattr(b.ignore_error_block, "key", None) == b.key
            inner = b.ignore_error_block
        if isinstance(inner, M.DuplicateFieldKeyBlock):
            d["cls"] = "dupfield"
            d["dupkeys"] = sorted(inner.duplicate_keys)
            e = inner.ignore_error_block
            d.update(_entry_proj(e))
            d["inner_is_entry"] = isinstance(e, M.Entry)
            d["has_error"] = inner.error is not None
        elif isinstance(inner, M.Entry):
            d["cls"] = "entry"
            d.update(_entry_proj(inner))
        elif isinstance(inner, M.String):
            d.update(cls="string", key=inner.key, value=inner.value)
        elif isinstance(inner, M.Preamble):
            d.update(cls="preamble", value=inner.value)
        elif isinstance(inner, M.ExplicitComment):
            d.update(cls="ecomment", comment=inner.comment)
        elif isinstance(inner, M.ImplicitComment):
            d.update(cls="icomment", comment=inner.comment)
        elif isinstance(inner, M.ParsingFailedBlock):
            d.update(cls="failed", has_error=inner.error is not None, error=type(inner.error).__name__)
        else:
            d.update(cls="?" + type(inner).__name__)
        out.append(d)
    return out


def locate(text: str, obs: List[Dict[str, Any]]) -> Tuple[Optional[str], List[Tuple[int, int]]]:
    """Offsets of every raw in the input, scanning left to right; gaps must be whitespace.
    Returns (problem or None, spans)."""
    pos, spans = 0, []
    n = len(text)
    for i, b in enumerate(obs):
        raw = b["raw"]
        if not isinstance(raw, str) or raw == "":
            return f"block {i} ({b['cls']}) has no raw text", spans
        p = pos
        found = -1
        while True:
            if text.startswith(raw, p):
                found = p
                break
            if p < n and text[p].isspace():
                p += 1
                continue
            break
        if found < 0:
            return (f"raw of block {i} ({b['cls']}) {raw[:40]!r} does not occur at offset {p} "
                    f"(input continues {text[p:p + 40]!r}; previous block ended at {pos})"), spans
        spans.append((found, found + len(raw)))
        pos = found + len(raw)
    if text[pos:].strip() != "":
        p = pos + (len(text[pos:]) - len(text[pos:].lstrip()))
        return f"input text {text[p:p + 40]!r} at offset {p} is in no block", spans
    return None, spans


# ---------------------------------------------------------------------------
# rendering of the specification's output
# ---------------------------------------------------------------------------
def render(text: str, toks: Sequence[bibtok.Tok], out: List[Dict[str, Any]]) -> List[Dict[str, Any]]:
    n = len(toks)

    def off(i):  # start offset of token index i (1-based); n+1 -> end of text
        return toks[i - 1].s if i <= n else len(text)

    def txt(r):
        a, b = r
        return text[off(a):toks[b - 2].e] if a < b else ""

    def line_of(i):
        return text.count("\n", 0, off(i))
    res = []
    for b in out:
        t = b["t"]
        d: Dict[str, Any] = {"line": b["line"], "from": b["from"], "to": b["to"], "start": off(b["from"])}
        if t == "failed":
            d.update(cls="failed", start=off(b["from"]), end=off(b["to"]), lo=off(b["lo"]), hi=off(b["hi"]))
            res.append(d)
            continue
        d["raw"] = txt((b["from"], b["to"]))
        if t == "icomment":
            d.update(cls="icomment", comment=d["raw"])
        elif t == "ecomment":
            d.update(cls="ecomment", comment=txt(b["val"]))
        elif t == "preamble":
            d.update(cls="preamble", value=txt(b["val"]))
        elif t == "string":
            d.update(cls="string", key=txt(b["key"]), value=txt(b["val"]))
        elif t in ("entry", "dupfield"):
            at = toks[b["at"] - 1]
            d.update(cls=t, type=text[at.s + 1:at.e].strip().lower(), key=txt(b["key"]),
                     fields=[[txt(f["key"]), txt(f["val"]), f["line"]] for f in b["fields"]],
                     keylines=[line_of(f["key"][0]) for f in b["fields"]])
            if t == "dupfield":
                ks = [txt(f["key"]) for f in b["fields"]]
                d["dupkeys"] = sorted({k for k in ks if ks.count(k) > 1})
        else:
            raise core.MachineryError(f"unknown spec block {t}")
        res.append(d)
    return res


CONTENT_KEYS = {"icomment": ["comment"], "ecomment": ["comment"], "preamble": ["value"], "string": ["key", "value"],
                "entry": ["type", "key"], "dupfield": ["type", "key", "dupkeys"]}


def compare(obs: List[Dict[str, Any]], exp: List[Dict[str, Any]], spans: List[Tuple[int, int]],
            text: str, values: bool = True) -> Dict[str, str]:
    """Clause -> first difference.  Clauses: blocks, content, start_line, field_line, failed_range, failed_carry."""
    diff: Dict[str, str] = {}
    if len(obs) != len(exp) or any(o["cls"] != e["cls"] for o, e in zip(obs, exp)):
        diff["blocks"] = f"observed {[o['cls'] for o in obs]} expected {[e['cls'] for e in exp]}"
        return diff
    for i, (o, e) in enumerate(zip(obs, exp)):
        c = o["cls"]
        if c == "failed":
            if not o.get("has_error") or not isinstance(o["raw"], str) or o["raw"] == "":
                diff.setdefault("failed_carry", f"failed block {i} has error={o.get('has_error')} raw={o['raw']!r}")
            s, t = spans[i]
            if s != e["start"] or not (e["lo"] <= t <= e["hi"]):
                diff.setdefault("failed_range", f"failed block {i} spans [{s},{t}) expected start {e['start']} end in [{e['lo']},{e['hi']}]")
            elif t != e["end"]:
                diff.setdefault("failed_end_noncanonical", f"failed block {i} ends at {t}, canonical {e['end']}")
        else:
            if spans[i][0] != e["start"] or o["raw"] != e["raw"]:
                diff.setdefault("raw", f"block {i} ({c}) raw {o['raw'][:60]!r} expected {e['raw'][:60]!r}")
            for k in CONTENT_KEYS[c]:
                if not values and k in ("value", "comment"):
                    continue
                ov, ev = o.get(k), e.get(k)
                if (ov.strip() if isinstance(ov, str) else ov) != (ev.strip() if isinstance(ev, str) else ev):
                    diff.setdefault("content", f"block {i} ({c}) {k}={o.get(k)!r} expected {e.get(k)!r}")
            if c in ("entry", "dupfield"):
                of, ef = o["fields"], e["fields"]
                if not values:      # a parse stack has transformed the values: keys and lines only
                    of = [[x[0], y[1], x[2]] for x, y in zip(of, ef)] if len(of) == len(ef) else of
                if [x[:2] for x in of] != [x[:2] for x in ef]:
                    diff.setdefault("content", f"block {i} ({c}) fields {[x[:2] for x in of]!r} expected {[x[:2] for x in ef]!r}")
                else:
                    for j, (x, y) in enumerate(zip(of, ef)):
                        # C03: a field whose key and "=" share a line reports that line
                        if e["keylines"][j] == y[2] and x[2] != y[2]:
                            diff.setdefault("field_line", f"block {i} field {x[0]!r} start_line {x[2]} expected {y[2]}")
                if c == "dupfield" and (not o.get("has_error") or not o.get("inner_is_entry")):
                    diff.setdefault("failed_carry", f"duplicate-field block {i} lacks error or inner entry")
        if o["line"] != e["line"]:
            diff.setdefault("start_line", f"block {i} ({c}) start_line {o['line']} expected {e['line']}")
    return diff


# ---------------------------------------------------------------------------
# running the real code
# ---------------------------------------------------------------------------
_SHARED: Dict[str, Any] = {}


def run_split(bib, text: str, how: str = "split"):
    """Returns (exception name or None, observed blocks)."""
    try:
        # a budget per call (generous: 30 s + 0.2 ms per character), so that a change that makes the scanner loop ends in a
        # verdict ("raised: Timeout") instead of a harness that never returns
        with core.time_limit(30 + len(text) * 2e-4):
            if how == "split":
                lib = bib.splitter.Splitter(text).split()
            elif how == "default":
                lib = bib.parse_string(text)
            elif how == "parse0_after_default":
                # the same text parsed with the default stack immediately before: an empty-stack parse is a function of the text
                bib.parse_string(text)
                lib = bib.parse_string(text, parse_stack=[])
            elif how == "default_shared":
                # one default stack (list AND middleware objects) built once and handed to every call of the run
                if "stack" not in _SHARED:
                    _SHARED["stack"] = bib.middlewares.parsestack.default_parse_stack()
                lib = bib.parse_string(text, parse_stack=_SHARED["stack"])
            elif how == "default_copy":
                lib = bib.parse_string(text, parse_stack=bib.middlewares.parsestack.default_parse_stack(allow_inplace_modification=False))
            else:
                lib = bib.parse_string(text, parse_stack=[])
    except core.Timeout:
        return "Timeout: no result within 30 s + 0.2 ms per character", []
    except (Exception, MemoryError) as e:  # noqa
        return f"{type(e).__name__}: {str(e)[:120]}", []
    obs = observe(lib, bib.model)
    scribble(lib, bib.model)
    return None, obs


def scribble(lib, M):
    """After the observation the caller edits what it got (as any user may): if the parser hands out state that is shared
    between parses (a mutable default, a cache), a LATER parse will show it."""
    for b in lib.blocks:
        inner = getattr(b, "ignore_error_block", None) or b
        try:
            inner.parser_metadata["verif-scribble"] = 1
            if isinstance(inner, M.Entry):
                inner.fields.append(M.Field("verif-scribble", "x", -7))
                inner.key = str(inner.key) + "~"
        except Exception:  # noqa
            pass


# ---------------------------------------------------------------------------
# T3 batch through TLC
# ---------------------------------------------------------------------------
def make_case(cid: int, text: str, obs: List[Dict[str, Any]], spans: List[Tuple[int, int]], judge: bool,
              grammar: bool = False, lib: bool = False):
    cuts = [x for s in spans for x in s]
    toks = bibtok.alpha(text, cuts)
    start_of = {t.s: i + 1 for i, t in enumerate(toks)}
    n = len(toks)

    def idx(off):
        return start_of.get(off, n + 1 if off >= len(text) else 0)
    fe, ranges = [], []
    ok = True
    for o, (s, e) in zip(obs, spans):
        a, b = idx(s), idx(e)
        if a == 0 or b == 0:
            ok = False
        if o["cls"] == "failed":
            fe.append([a, b])
        ranges.append({"from": a, "to": b, "line": o["line"] if isinstance(o["line"], int) else -1})
    case = {"id": cid, "k": [t.k for t in toks], "w": [t.w for t in toks], "fe": fe if ok else [],
            "judge": bool(judge and ok), "obs": ranges if ok else [], "g": bool(grammar), "lib": bool(lib)}
    return case, toks


def oracle(cases: List[dict], shards: int = 16):
    """Returns {id: {"out":..., "obs":..., "spec":...}}, tlc results."""
    v = core.validate_traces("Oracle_Splitter", cases, shards=shards, heap="4g")
    res = {n["id"]: n for n in v.notes if "id" in n}
    if len(res) != len(cases):
        raise core.MachineryError(f"oracle answered {len(res)} of {len(cases)} cases")
    bad = [i for i, r in res.items() if r["spec"]]
    if bad:
        raise core.MachineryError(f"the specification violates its own invariants on case {bad[0]} (R5)")
    return res, v.results


def evaluate(bib, texts: List[str], how: str = "split", shards: int = 16, grammar: bool = False, lib: bool = False):
    """Full T3 evaluation of a batch of texts.  Returns (list of per-text dicts, tlc results):
       {"text", "raised", "obs", "exp", "diff": {clause: detail}}"""
    pre = []
    cases = []
    runaway = 0
    for i, text in enumerate(texts):
        if runaway >= 5:
            # five texts of this batch already ran into the time or memory budget: they are reported; the others are marked
            # (as raised, so that no check takes them for conforming) instead of spending half a minute on each
            raised, obs = "Timeout: not evaluated after five earlier calls of this batch ran out of budget", []
        else:
            raised, obs = run_split(bib, text, how)
            if raised and raised.startswith(("Timeout", "MemoryError")):
                runaway += 1
        problem, spans = (None, [])
        if raised is None:
            problem, spans = locate(text, obs)
        rec = {"text": text, "raised": raised, "obs": obs, "tiling_problem": problem, "spans": spans}
        if raised is None and problem is None:
            case, toks = make_case(i, text, obs, spans, judge=True, grammar=grammar, lib=lib)
        else:
            case, toks = make_case(i, text, [], [], judge=False, grammar=grammar, lib=lib)
        rec["toks"] = toks
        cases.append(case)
        pre.append(rec)
    res, tlcs = oracle(cases, shards=shards)
    for i, rec in enumerate(pre):
        r = res[i]
        exp = render(rec["text"], rec["toks"], r["out"])
        rec["exp"] = exp
        diff: Dict[str, str] = {}
        if rec["raised"] is not None:
            diff["raised"] = rec["raised"]
        elif rec["tiling_problem"] is not None:
            diff["tiling"] = rec["tiling_problem"]
        else:
            diff = compare(rec["obs"], exp, rec["spans"], rec["text"], values=(not how.startswith("default")))
            if r["obs"] == "tiling":
                diff.setdefault("tiling", "TLC: Tiling(toks, observed ranges) is false")
            elif r["obs"] == "start_line":
                diff.setdefault("start_line", "TLC: Lines(toks, observed ranges) is false")
        rec["diff"] = diff
        rec["grammar"] = r["rec"]
        rec["lib"] = r["lib"]
        rec["parsed"] = r["parsed"]
        rec["out"] = r["out"]
        if not r["libok"]:
            raise core.MachineryError("the composed specification violates DupOK (R5) on " + repr(rec["text"][:200]))
        del rec["toks"]
    return pre, tlcs
