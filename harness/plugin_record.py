"""pytest plugin: record every outermost Library.__init__/add/remove/replace call made while the repository's own
test-suite runs, as histories for Trace_Library (T3 of C08).  Harness-side wrapping only: nothing in /repo changes.

Activated with   python -m pytest -p harness.plugin_record   and   VERIF_TRACE_OUT=<file>.
One history per Library instance; an argument block is described by [id, kind, key, eqc] where eqc groups the blocks
of that history that compare equal (==) at the time of the call; wrappers created by the library are named by
position, exactly as in harness/props/c08.py.
"""
from __future__ import annotations

import json
import os
import threading

_hist = {}        # id(library) -> dict(id, ev, objs(list keeps references), names{id(obj): name}, eq [(name, obj)])
_order = []
_local = threading.local()


def _kind(b, M):
    if isinstance(b, M.DuplicateBlockKeyBlock):
        return "failed"            # a wrapper handed in by the caller is just a failed block to the library
    if isinstance(b, M.DuplicateFieldKeyBlock):
        return "dupfield"
    if isinstance(b, M.ParsingFailedBlock):
        return "failed"
    for cls, k in ((M.Entry, "entry"), (M.String, "string"), (M.Preamble, "preamble"), (M.ExplicitComment, "ecomment"),
                   (M.ImplicitComment, "icomment")):
        if isinstance(b, cls):
            return k
    return "other"


def _rec(h, b, M):
    i = id(b)
    if i not in h["names"]:
        name = "o%d" % len(h["names"])
        h["names"][i] = name
        h["objs"].append(b)
        eqc = name
        k = _kind(b, M)
        if k not in ("failed", "dupfield"):
            for n2, o2 in h["eq"]:
                try:
                    if o2 == b and b == o2:
                        eqc = h["eqc"][n2]
                        break
                except Exception:
                    pass
        h["eq"].append((name, b))
        h["eqc"][name] = eqc
    name = h["names"][i]
    key = getattr(b, "key", "") if _kind(b, M) in ("entry", "string") else ""
    return {"id": name, "kind": _kind(b, M), "key": key if isinstance(key, str) else repr(key), "eqc": h["eqc"][name]}


def _arg(h, lib, b, M):
    if isinstance(b, M.DuplicateBlockKeyBlock) and id(b) not in h["names"]:
        for i, x in enumerate(lib._blocks_for_verif()):
            if x is b:
                return {"pos": i + 1}
    return _rec(h, b, M)


def _desc(h, b, M):
    if id(b) in h["names"]:
        return h["names"][id(b)]
    if isinstance(b, M.DuplicateBlockKeyBlock):
        return "W/%s/%s/%s" % (b.key, h["names"].get(id(b.ignore_error_block), "?"), h["names"].get(id(b.previous_block), "?"))
    return "?" + type(b).__name__


def _views(h, lib, M):
    d = lambda b: _desc(h, b, M)  # noqa
    return {"blocks": [d(b) for b in lib.blocks], "entries": [d(b) for b in lib.entries],
            "entries_dict": sorted([k if isinstance(k, str) else repr(k), d(b)] for k, b in lib.entries_dict.items()),
            "strings": sorted(d(b) for b in lib.strings),
            "strings_dict": sorted([k if isinstance(k, str) else repr(k), d(b)] for k, b in lib.strings_dict.items()),
            "preambles": [d(b) for b in lib.preambles], "comments": [d(b) for b in lib.comments],
            "failed_blocks": [d(b) for b in lib.failed_blocks]}


def pytest_configure(config):
    import bibtexparser.library as L
    import bibtexparser.model as M
    Library = L.Library
    if getattr(Library, "_verif_wrapped", False):
        return
    Library._verif_wrapped = True
    Library._blocks_for_verif = lambda self: self.blocks
    orig = {n: getattr(Library, n) for n in ("__init__", "add", "remove", "replace")}

    def hist(lib):
        h = _hist.get(id(lib))
        if h is None or h["lib"] is not lib:
            h = {"lib": lib, "id": len(_order), "ev": [], "objs": [], "names": {}, "eq": [], "eqc": {}, "bad": False}
            _hist[id(lib)] = h
            _order.append(h)
        return h

    def outer():
        return getattr(_local, "depth", 0) == 0

    def call(name, self, build_event, *a, **k):
        if not outer():
            return orig[name](self, *a, **k)
        h = hist(self)
        try:
            ev = build_event(h)
        except Exception:
            ev, h["bad"] = None, True
        _local.depth = 1
        out = "ok"
        try:
            return orig[name](self, *a, **k)
        except BaseException as ex:
            out = type(ex).__name__
            raise
        finally:
            _local.depth = 0
            if ev is not None and not h["bad"]:
                try:
                    ev["out"] = out
                    ev["v"] = _views(h, self, M)
                    h["ev"].append(ev)
                except Exception:
                    h["bad"] = True

    def listify(blocks):
        return [blocks] if isinstance(blocks, M.Block) else list(blocks)

    def init(self, blocks=None):
        def ev(h):
            return {"op": "add", "bs": [_rec(h, b, M) for b in (blocks or [])], "fail": False, "single": False}
        return call("__init__", self, ev, blocks)

    def add(self, blocks, fail_on_duplicate_key=False):
        bl = listify(blocks)

        def ev(h):
            return {"op": "add", "bs": [_rec(h, b, M) for b in bl], "fail": bool(fail_on_duplicate_key), "single": isinstance(blocks, M.Block)}
        return call("add", self, ev, bl if not isinstance(blocks, M.Block) else blocks, fail_on_duplicate_key)

    def remove(self, blocks):
        bl = listify(blocks)

        def ev(h):
            return {"op": "remove", "as": [_arg(h, self, b, M) for b in bl], "single": isinstance(blocks, M.Block)}
        return call("remove", self, ev, bl if not isinstance(blocks, M.Block) else blocks)

    def replace(self, old_block, new_block, fail_on_duplicate_key=True):
        def ev(h):
            return {"op": "replace", "old": _arg(h, self, old_block, M), "new": _rec(h, new_block, M), "fail": bool(fail_on_duplicate_key)}
        return call("replace", self, ev, old_block, new_block, fail_on_duplicate_key)

    Library.__init__, Library.add, Library.remove, Library.replace = init, add, remove, replace


def pytest_unconfigure(config):
    out = os.environ.get("VERIF_TRACE_OUT")
    if not out:
        return
    cases = []
    for h in _order:
        if h["bad"] or not h["ev"]:
            continue
        # a remove/replace naming several wrappers by position is outside the model's argument language
        cases.append({"id": len(cases), "ev": h["ev"]})
    with open(out, "w") as fh:
        json.dump(cases, fh)
