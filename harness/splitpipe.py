"""Shared T1/T2/T3 pipeline of the splitter properties (C01, C02, C03, C04, C09).

t2():  MC_Splitter explores prefix x suffix token sequences, checks the spec-level invariants (T1) and exports
       (input, blocks).  Every exported input is concretised in several spellings, run through the real splitter
       and compared with the exported blocks (fast path); any difference is re-judged by TLC with the observed
       failed-block ends bound (slow path = splitobs.evaluate).
t3():  arbitrary texts -> splitobs.evaluate.
Both return per-input records {"text", "diff": {clause: detail}, ...}; each property reports only its own clauses.
"""
from __future__ import annotations

import random
import signal
from contextlib import contextmanager
from typing import Dict, List, Optional

from . import bibtok, core, splitobs

NPREFIX = 33
INVARIANTS = ["InvNoInternalError", "InvTiling", "InvLines", "InvFieldLines", "InvFailedCarry", "InvShapes",
              "InvIncremental", "InvGrammar"]
PROPERTIES = ["PrefixStable", "Resync"]


def mc_cfg(maxsuffix: int, prefixsel) -> str:
    return ("INIT Init\nNEXT Next\nCONSTANTS\n MaxSuffix = %d\n PrefixSel = %s\n" % (maxsuffix, core.tla_val(set(prefixsel)))
            + "".join(f"INVARIANT {i}\n" for i in INVARIANTS) + "".join(f"PROPERTY {p}\n" for p in PROPERTIES)
            + "CHECK_DEADLOCK FALSE\n")


Timeout = core.Timeout
time_limit = core.time_limit


_G: Dict[str, object] = {}
IGNORED = {"failed_end_noncanonical"}


def _fast_chunk(lines):
    """Fast path for a chunk of exported lines. Returns counts and the texts needing the slow path."""
    bib = _G["bib"]
    nvar = _G["nvar"]
    seed = _G["seed"]
    extra = _G.get("extra")
    res = {"n": 0, "skipped": 0, "ok": 0, "slow": [], "samples": [], "extra": [], "g": 0}
    for line in lines:
        e = core.parse_export(line)
        names = [bibtok.NAME_OF_W[w] for w in e["w"]]
        rnd = random.Random(hash((seed, tuple(e["w"]))) & 0xFFFFFFFF)
        for v in range(nvar):
            text, spans0 = bibtok.gamma(names, rnd, v)
            toks = bibtok.roundtrips(names, text)
            if toks is None:
                res["skipped"] += 1
                continue
            res["n"] += 1
            res["g"] += 1 if e.get("g") else 0
            if res.get("runaway", 0) >= 3:
                # three calls of this chunk already ran into the time or memory budget: the rest of the chunk would only
                # repeat that at a minute apiece; the three are reported, the rest is counted as not evaluated
                res["skipped"] += 1
                res["n"] -= 1
                continue
            raised, obs = splitobs.run_split(bib, text, "split")
            if raised and raised.startswith(("Timeout", "MemoryError")):
                res["runaway"] = res.get("runaway", 0) + 1
                res["slow"].append(text)
                continue
            diff = None
            if raised is None:
                problem, spans = splitobs.locate(text, obs)
                if problem is None:
                    exp = splitobs.render(text, toks, e["out"])
                    diff = splitobs.compare(obs, exp, spans, text)
            if extra is not None:
                x = extra(bib, text, e, toks)
                if x:
                    res["extra"].append(x)
            if diff == {}:
                res["ok"] += 1
                if not res["samples"] and len(e["out"]) >= 2:
                    res["samples"].append({"tokens": names, "text": text, "spec_blocks": [b["t"] for b in e["out"]]})
            else:
                res["slow"].append(text)
    return res


def t2(chk: core.Check, bib, maxsuffix: int, prefixsel, nvar: int, extra=None, what: str = "", grammar: bool = False):
    """Returns (records of inputs that differ from the specification, counters)."""
    res = core.run_tlc("MC_Splitter", mc_cfg(maxsuffix, prefixsel), timeout=3000, heap="16g")
    chk.add_tlc(res, f"MC_Splitter MaxSuffix={maxsuffix} prefixes={len(list(prefixsel))}: " + ", ".join(INVARIANTS + PROPERTIES))
    _G.update(bib=bib, nvar=nvar, seed=chk.seed, extra=extra)
    lines = list(res.raw_lines())
    if len(lines) != res.exported or not lines:
        raise core.MachineryError("MC_Splitter export count mismatch")
    outs = core.pmap(_fast_chunk, core.chunks(lines, len(lines) // 64 + 1))
    n = sum(o["n"] for o in outs)
    skipped = sum(o["skipped"] for o in outs)
    slow = sorted({t for o in outs for t in o["slow"]})
    for o in outs:
        for s in o["samples"]:
            chk.sample(s)
    extras = [x for o in outs for x in o["extra"]]
    recs = []
    if slow:
        cap = 4000
        recs, tlcs = splitobs.evaluate(bib, slow[:cap], "split", grammar=grammar)
        for r in tlcs:
            chk.add_tlc(r, "Oracle_Splitter (T2 slow path)", count_states=False)
        for r in recs:
            for k in IGNORED:
                r["diff"].pop(k, None)
    counters = {"t2_inputs": res.exported, "t2_concrete_runs": n, "t2_spellings_not_roundtripping": skipped,
                "t2_fast_path_equal": sum(o["ok"] for o in outs), "t2_slow_path": len(slow),
                "t2_runs_on_dialect_inputs": sum(o["g"] for o in outs)}
    chk.traces += n
    chk.evaluations += n
    chk.nontrivial.update(range(len(chk.nontrivial), len(chk.nontrivial) + res.exported))
    return [r for r in recs if r["diff"]], counters, extras


def t3(chk: core.Check, bib, texts: List[str], how: str = "split", grammar: bool = False):
    recs, tlcs = splitobs.evaluate(bib, texts, how, grammar=grammar)
    for r in tlcs:
        chk.add_tlc(r, "Oracle_Splitter (T3)", count_states=False)
    for r in recs:
        for k in IGNORED:
            r["diff"].pop(k, None)
    chk.traces += len(texts)
    chk.evaluations += len(texts)
    return recs


# ---------------------------------------------------------------------------
# input families
# ---------------------------------------------------------------------------
def families(n: int) -> Dict[str, str]:
    """Size-scaled families (DESIGN C01): n is the scale (lines / nesting depth / blocks)."""
    ent = lambda i: "@article{k%d,\n  title = {T%d},\n  year = %d\n}" % (i, i, 1900 + i % 100)
    return {
        "blank_lines": "\n" * n,
        "comment_lines": "".join("%% line %d\n" % i for i in range(n)),
        "text_then_entry": "".join("word%d\n" % i for i in range(n)) + "@a{k}\n",
        "entry_many_fields": "@a{k,\n" + "".join(" f%d = {v%d},\n" % (i, i) for i in range(n)) + "}\n",
        "entry_long_value": "@a{k, f = {" + "".join("line %d\n" % i for i in range(n)) + "}}\n",
        "deep_braces": "@a{k, f = " + "{" * n + "x" + "}" * n + "}\n",
        "deep_braces_comment": "@comment{" + "{" * n + "}" * n + "}\n@a{k}",
        "unterminated_then_lines": "@a{k, f = {x\n" + "".join("w%d\n" % i for i in range(n)),
        "unterminated_quote": '@a{k, f = "x\n' + "\n" * n + "@b{j}\n",
        "many_entries": "\n".join(ent(i) for i in range(n // 4 + 1)) + "\n",
        "many_failed": "".join("@a{k%d, = \n" % i for i in range(n // 2 + 1)),
        "blank_inside_string": "@string{s = {" + "\n" * n + "}}",
        "blank_inside_preamble": "@preamble{" + "\n" * n + "}",
        "crlf_entries": "\r\n".join(ent(i).replace("\n", "\r\n") for i in range(n // 4 + 1)),
        "backslash_newlines": "".join("a\\\n" for _ in range(n)) + "@a{k}\n",
        "eof_in_key": "\n" * n + "@a{k",
        "commas": "@a{k" + "," * n + "}",
    }


def pumped(n: int) -> Dict[str, str]:
    """stem + unit * n + tail: every mark character and blank pumped in every control state of the scanner (a regular
    expression or a loop that is super-linear in a run of one character shows here as a hang)."""
    stems = ["", "@", "@a", "@a{", "@a{k", "@a{k,", "@a{k, f", "@a{k, f =", "@a{k, f = {", "@a{k, f = \"", "@a{k, f = x", "@comment", "@comment{",
             "@string{", "@string{s =", "@preamble{", "x", "%", "@a{k, f = {x},", "@a{k}\n"]
    units = [" ", "\t", " \t", "\n", " \n", "\\", "@", "{", "}", "\"", ",", "=", "#", "a", "\r", "é", "@a ", "{}", "\\\"", "a ", "@ ", "=,"]
    tails = ["", "{", "}", "x", "\n@b{j}"]
    out = {}
    for i, st in enumerate(stems):
        for j, u in enumerate(units):
            for k, tl in enumerate(tails):
                if (i + j + k) % 2 == 0 or n <= 64:      # half of the product at the large scale, all of it at 64
                    out[f"pump[{st!r}+{u!r}*{n}+{tl!r}]"] = st + u * n + tl
    return out


SURROGATES = ["\ud800", "\udfff", "\udc80", "@a{k\ud800, f = {\udcff}}", "\udce9crit @a{k}", "@string{s = \"\ud83d\"}", "x\udc00\n@a{\ud800}"]


GARBAGE = list("{}\",=\n@\\ \t\r#%") + ["@a{", "@comment{", "@string{", "@preamble{", "x", "é", "k1", " ", "\x0b", "@é{", "@{"]


def garbage(rnd: random.Random, n: int, maxlen: int = 40) -> List[str]:
    return ["".join(rnd.choice(GARBAGE) for _ in range(rnd.randint(0, maxlen))) for _ in range(n)]


UNI = ["\x0b", "\x0c", "\x1c", "\x1d", "\x1e", "\x1f", "\x85", "\u2028", "\u2029", "\u00a0", "\u3000", "\ufeff", "\u200b", "\u0301", "\u0130",
       "\u00df", "\u01c5", "\U0001f600", "\U00010400", "\uff20", "\uff5b", "\uff41", "\u0660", "\u00b2", "\u212a", "\ud7ff", "\x00", "\x7f"]


def ugarbage(rnd: random.Random, n: int, maxlen: int = 40) -> List[str]:
    """arbitrary Unicode (no lone surrogates) mixed with the mark characters: separators that str.isspace / splitlines
    know but the scanner does not, combining marks, astral characters, full-width look-alikes of @ and {"""
    out = []
    for _ in range(n):
        k = rnd.randint(0, maxlen)
        chars = []
        for _ in range(k):
            r = rnd.random()
            if r < 0.45:
                chars.append(rnd.choice(GARBAGE))
            elif r < 0.8:
                chars.append(rnd.choice(UNI))
            else:
                cp = rnd.randint(0x20, 0x2FFFF)
                chars.append(chr(cp) if not 0xD800 <= cp <= 0xDFFF else "?")
        out.append("".join(chars))
    return out
