"""Token abstraction of BibTeX text (DESIGN 3.2): alpha (text -> tokens), gamma (abstract names -> text).

Part of the trusted base. alpha is written from the description of the mark language, not from splitter.py;
`crosscheck_regex` compares its mark positions with the regex found in the working tree (machinery warning only).
"""
from __future__ import annotations

import random
import re
from typing import Dict, Iterable, List, Optional, Sequence, Tuple

MARKS = {"{": "LB", "}": "RB", '"': "QT", ",": "CM", "=": "EQ"}
AT_RE = re.compile(r"@\w*[ \t]*(?=\{)")
SPECIAL = {"comment": "ATC", "preamble": "ATP", "string": "ATS"}


class Tok:
    __slots__ = ("k", "s", "e", "w")

    def __init__(self, k, s, e):
        self.k, self.s, self.e, self.w = k, s, e, 0

    def __repr__(self):
        return f"{self.k}[{self.s}:{self.e}]"


def alpha(text: str, cuts: Iterable[int] = ()) -> List[Tok]:
    """Lex text into tokens; every offset in `cuts` becomes a token boundary (plain text/whitespace/escapes are
    split as needed). Token .w interns the exact token text (equal text <=> equal id) within this call."""
    toks: List[Tok] = []
    n = len(text)
    i = 0
    ws = None  # start of current W run
    while i < n:
        c = text[i]
        kind = None
        end = i + 1
        if c == "@":
            m = AT_RE.match(text, i)
            if m:
                word = m.group(0)[1:].strip(" \t").lower()
                kind = SPECIAL.get(word, "ATE")
                end = m.end()
        elif c == "\\":
            if i + 1 < n and text[i + 1] in '{}",=':
                kind, end = "ESC", i + 2
        elif c in MARKS:
            kind = MARKS[c]
        elif c == "\n":
            kind = "NL"
        elif c.isspace():
            kind = "SP"
            while end < n and text[end].isspace() and text[end] != "\n":
                end += 1
        if kind is None:
            if ws is None:
                ws = i
            i += 1
            continue
        if ws is not None:
            toks.append(Tok("W", ws, i))
            ws = None
        toks.append(Tok(kind, i, end))
        i = end
    if ws is not None:
        toks.append(Tok("W", ws, n))
    for t in toks:
        if t.k == "W" and t.e - t.s == 1 and text[t.s] == "#":
            t.k = "H"
    cs = sorted(set(c for c in cuts if 0 < c < n))
    if cs:
        out: List[Tok] = []
        ci = 0
        for t in toks:
            while ci < len(cs) and cs[ci] <= t.s:
                ci += 1
            cur = t.s
            j = ci
            pieces = []
            while j < len(cs) and cs[j] < t.e:
                if t.k in ("W", "SP", "ESC"):
                    pieces.append((cur, cs[j]))
                    cur = cs[j]
                j += 1
            if pieces:
                k2 = "W" if t.k == "ESC" else t.k
                for a, b in pieces:
                    out.append(Tok(k2, a, b))
                out.append(Tok(k2, cur, t.e))
            else:
                out.append(t)
        toks = out
    ids: Dict[str, int] = {}
    for t in toks:
        s = text[t.s:t.e]
        t.w = ids.setdefault(s, len(ids) + 1)
    return toks


def line_at(text: str, off: int) -> int:
    return text.count("\n", 0, off)


def crosscheck_regex(text: str, toks: Sequence[Tok]) -> Optional[str]:
    """Compare alpha's mark positions with the regex of the working tree's splitter (if it can be found)."""
    try:
        import inspect
        from bibtexparser import splitter as sp
        src = inspect.getsource(sp.Splitter.split)
        m = re.search(r're\.finditer\(\s*r"((?:[^"\\]|\\.)*)"', src)
        if not m:
            return None
        rx = re.compile(m.group(1).encode().decode("unicode_escape") if False else m.group(1), re.MULTILINE)
    except Exception:
        return None
    mine = [(t.s, t.e) for t in toks if t.k not in ("W", "SP", "ESC")]
    theirs = [(mm.start(), mm.end()) for mm in rx.finditer(text)]
    if mine != theirs:
        return f"mark positions differ: alpha={mine[:8]} regex={theirs[:8]}"
    return None


# ---------------------------------------------------------------------------
# gamma: abstract names of MC_Splitter -> text
# ---------------------------------------------------------------------------
NAME_OF_W = {10: "ATE", 11: "ATC", 12: "ATP", 13: "ATS", 1: "LB", 2: "RB", 3: "QT", 4: "CM", 5: "EQ", 6: "NL",
             7: "SP", 8: "ESC", 9: "HASH", 21: "W1", 22: "W2", 23: "WB", 24: "WA"}
KIND_OF_NAME = {"ATE": "ATE", "ATC": "ATC", "ATP": "ATP", "ATS": "ATS", "LB": "LB", "RB": "RB", "QT": "QT",
                "CM": "CM", "EQ": "EQ", "NL": "NL", "SP": "SP", "ESC": "ESC", "HASH": "H", "W1": "W", "W2": "W", "WB": "W", "WA": "W"}
ATE_SPELL = ["@a", "@Article", "@book ", "@x1\t", "@commentary", "@stringent", "@Preambles", "@é", "@", "@Straße", "@ΛΌΓΟΣ ", "@ſtring", "@ǅx"]
ATC_SPELL = ["@comment", "@Comment", "@COMMENT "]
ATP_SPELL = ["@preamble", "@Preamble\t"]
ATS_SPELL = ["@string", "@String ", "@STRING"]
SP_SPELL = [" ", "\t", "  ", "\r", " "]
ESC_SPELL = ["\\{", "\\}", '\\"', "\\,", "\\="]
W_SPELL = ["x", "k1", "é", "12", "a#b", "a.b", "%", "-"]
WA_SPELL = ["@", "@foo", "a@b"]


def gamma(names: Sequence[str], rnd: random.Random, variant: int = 0) -> Tuple[str, List[Tuple[int, int]]]:
    """Concretise abstract token names. One spelling per abstract text token per input (so that equal abstract
    tokens have equal text), block-start tokens are spelled per occurrence. variant 0 is the plain spelling."""
    if variant == 0:
        sp, esc, w1, w2, wa = " ", "\\{", "x", "k1", "@foo"
    else:
        sp, esc = rnd.choice(SP_SPELL), rnd.choice(ESC_SPELL)
        w1, w2 = rnd.sample(W_SPELL, 2)
        wa = rnd.choice(WA_SPELL)
    out, spans, pos = [], [], 0
    for nm in names:
        if nm == "ATE":
            s = "@a" if variant == 0 else rnd.choice(ATE_SPELL)
        elif nm == "ATC":
            s = "@comment" if variant == 0 else rnd.choice(ATC_SPELL)
        elif nm == "ATP":
            s = "@preamble" if variant == 0 else rnd.choice(ATP_SPELL)
        elif nm == "ATS":
            s = "@string" if variant == 0 else rnd.choice(ATS_SPELL)
        else:
            s = {"LB": "{", "RB": "}", "QT": '"', "CM": ",", "EQ": "=", "NL": "\n", "SP": sp, "ESC": esc, "HASH": "#",
                 "W1": w1, "W2": w2, "WB": "\\", "WA": wa}[nm]
        out.append(s)
        spans.append((pos, pos + len(s)))
        pos += len(s)
    return "".join(out), spans


def roundtrips(names: Sequence[str], text: str) -> Optional[List[Tok]]:
    """alpha(gamma(names)) must give back the same kinds and the same text-equality pattern."""
    toks = alpha(text)
    if len(toks) != len(names):
        return None
    seen: Dict[str, int] = {}
    for t, nm in zip(toks, names):
        if t.k != KIND_OF_NAME[nm]:
            return None
        if KIND_OF_NAME[nm] in ("W", "SP", "ESC"):
            if seen.setdefault(nm, t.w) != t.w:
                return None
    ws = [seen[nm] for nm in seen]
    if len(set(ws)) != len(ws):
        return None
    return toks
